package main

// C15 — JSON is a lossless interchange form.  Ops:
//
//	c15rt   <canon x> <json printed by the Lean model>   marshal / polyjson.Parse / Write+Read (histories of writes and
//	                                                     reads on one path) / GetSequence / Build
//	c15dec  <json text>                                  polyjson.Parse only (decoder rules)
//	c15conv gbk|gff <file text>                          parser → Build  vs  parser → JSON → polyjson.Parse → Build
//	                                                     (also through polyjson.Write/Read and MarshalIndent/Unmarshal)
//
// Values travel in a canonical text form ("canon", space-separated tokens) that is produced and
// read with reflect, so it follows the compiled struct types, not a hand-written field list:
//
//	string  s<cp>.<cp>…   (code points, decimal; invalid UTF-8: x<byte>.<byte>…;
//	        r<count>*s<unit> for a string of >= 4096 runes that is a unit of <= 64 runes repeated)
//	int     i<n>          bool  b0 | b1
//	struct  { Field value Field value … }        (every exported field, declaration order)
//	slice   nil | [ value … ]
//	map     nil | < key value … >                (map[string]string, sorted by key)
//	pointer nil | ^ <string>                     (*Sequence: the pointee's .Sequence text)

import (
	"encoding/hex"
	"encoding/json"
	"fmt"
	"os"
	"path/filepath"
	"reflect"
	"sort"
	"strconv"
	"strings"
	"sync"
	"unicode/utf8"
	"verifharness/runner"

	"github.com/TimothyStiles/poly"
	"github.com/TimothyStiles/poly/io/genbank"
	"github.com/TimothyStiles/poly/io/gff"
	"github.com/TimothyStiles/poly/io/polyjson"
)

// c15Period: smallest p <= 64 such that rs is its first p runes repeated (0: none)
func c15Period(rs []rune) int {
	n := len(rs)
	for p := 1; p <= 64 && p < n; p++ {
		if n%p != 0 {
			continue
		}
		ok := true
		for i := p; i < n; i++ {
			if rs[i] != rs[i-p] {
				ok = false
				break
			}
		}
		if ok {
			return p
		}
	}
	return 0
}

func c15StrTok(s string) string {
	var b strings.Builder
	if len(s) >= 4096 && utf8.ValidString(s) {
		// long exactly-periodic strings (genome-sized test sequences) travel as r<count>*s<unit>;
		// same rule as `cS` in lean/PolyVerif/Driver/C15.lean
		rs := []rune(s)
		if len(rs) >= 4096 {
			if p := c15Period(rs); p > 0 {
				return "r" + strconv.Itoa(len(rs)/p) + "*" + c15StrTok(string(rs[:p]))
			}
		}
	}
	if utf8.ValidString(s) {
		b.WriteByte('s')
		first := true
		for _, r := range s {
			if !first {
				b.WriteByte('.')
			}
			first = false
			b.WriteString(strconv.Itoa(int(r)))
		}
		return b.String()
	}
	b.WriteByte('x')
	for i := 0; i < len(s); i++ {
		if i > 0 {
			b.WriteByte('.')
		}
		b.WriteString(strconv.Itoa(int(s[i])))
	}
	return b.String()
}

func c15ParseStrTok(t string) (string, error) {
	if strings.HasPrefix(t, "r") {
		i := strings.IndexByte(t, '*')
		if i < 0 {
			return "", fmt.Errorf("canon: bad repeat token")
		}
		k, err := strconv.Atoi(t[1:i])
		if err != nil {
			return "", err
		}
		unit, err := c15ParseStrTok(t[i+1:])
		if err != nil {
			return "", err
		}
		return strings.Repeat(unit, k), nil
	}
	if t == "" || (t[0] != 's' && t[0] != 'x') {
		return "", fmt.Errorf("canon: string token expected, got %q", t)
	}
	if len(t) == 1 {
		return "", nil
	}
	var b strings.Builder
	for _, part := range strings.Split(t[1:], ".") {
		n, err := strconv.Atoi(part)
		if err != nil {
			return "", err
		}
		if t[0] == 's' {
			b.WriteRune(rune(n))
		} else {
			b.WriteByte(byte(n))
		}
	}
	return b.String(), nil
}

func c15Print(v reflect.Value, out *[]string) error {
	switch v.Kind() {
	case reflect.String:
		*out = append(*out, c15StrTok(v.String()))
	case reflect.Int, reflect.Int8, reflect.Int16, reflect.Int32, reflect.Int64:
		*out = append(*out, "i"+strconv.FormatInt(v.Int(), 10))
	case reflect.Bool:
		if v.Bool() {
			*out = append(*out, "b1")
		} else {
			*out = append(*out, "b0")
		}
	case reflect.Struct:
		*out = append(*out, "{")
		for i := 0; i < v.NumField(); i++ {
			if v.Type().Field(i).PkgPath != "" {
				return fmt.Errorf("canon: unexported field %s", v.Type().Field(i).Name)
			}
			*out = append(*out, v.Type().Field(i).Name)
			if err := c15Print(v.Field(i), out); err != nil {
				return err
			}
		}
		*out = append(*out, "}")
	case reflect.Slice:
		if v.IsNil() {
			*out = append(*out, "nil")
			return nil
		}
		*out = append(*out, "[")
		for i := 0; i < v.Len(); i++ {
			if err := c15Print(v.Index(i), out); err != nil {
				return err
			}
		}
		*out = append(*out, "]")
	case reflect.Map:
		if v.Type().Key().Kind() != reflect.String || v.Type().Elem().Kind() != reflect.String {
			return fmt.Errorf("canon: map type %s", v.Type())
		}
		if v.IsNil() {
			*out = append(*out, "nil")
			return nil
		}
		keys := make([]string, 0, v.Len())
		for _, k := range v.MapKeys() {
			keys = append(keys, k.String())
		}
		sort.Strings(keys)
		*out = append(*out, "<")
		for _, k := range keys {
			*out = append(*out, c15StrTok(k), c15StrTok(v.MapIndex(reflect.ValueOf(k).Convert(v.Type().Key())).String()))
		}
		*out = append(*out, ">")
	case reflect.Ptr:
		if v.IsNil() {
			*out = append(*out, "nil")
			return nil
		}
		seq, ok := v.Interface().(*poly.Sequence)
		if !ok {
			return fmt.Errorf("canon: pointer type %s", v.Type())
		}
		if c15Root != nil && seq.Sequence == *c15Root {
			*out = append(*out, "^", "=") // the pointee's text is the printed value's own sequence text
		} else {
			*out = append(*out, "^", c15StrTok(seq.Sequence))
		}
	default:
		return fmt.Errorf("canon: kind %s", v.Kind())
	}
	return nil
}

// the Sequence text of the value being printed (parent pointers that lead to the same text print `^ =`)
var c15Root *string

// c15Root is shared: printing is serialised (requests may run concurrently under VERIF_PAR; the library calls
// themselves stay concurrent)
var c15CanonMu sync.Mutex

func c15Canon(x poly.Sequence) (string, error) {
	c15CanonMu.Lock()
	defer c15CanonMu.Unlock()
	c15Root = &x.Sequence
	defer func() { c15Root = nil }()
	var out []string
	if err := c15Print(reflect.ValueOf(x), &out); err != nil {
		return "", err
	}
	return strings.Join(out, " "), nil
}

type c15Reader struct {
	toks []string
	pos  int
}

// placeholder pointee for a parent pointer written `^ =` (same text as the root value's: linked to the root)
var c15Self = &poly.Sequence{}

func (r *c15Reader) next() (string, error) {
	if r.pos >= len(r.toks) {
		return "", fmt.Errorf("canon: unexpected end")
	}
	t := r.toks[r.pos]
	r.pos++
	return t, nil
}

func (r *c15Reader) peek() string {
	if r.pos >= len(r.toks) {
		return ""
	}
	return r.toks[r.pos]
}

func (r *c15Reader) read(v reflect.Value) error {
	t, err := r.next()
	if err != nil {
		return err
	}
	switch v.Kind() {
	case reflect.String:
		s, err := c15ParseStrTok(t)
		if err != nil {
			return err
		}
		v.SetString(s)
	case reflect.Int, reflect.Int8, reflect.Int16, reflect.Int32, reflect.Int64:
		if !strings.HasPrefix(t, "i") {
			return fmt.Errorf("canon: int token expected, got %q", t)
		}
		n, err := strconv.ParseInt(t[1:], 10, 64)
		if err != nil {
			return err
		}
		v.SetInt(n)
	case reflect.Bool:
		if t != "b0" && t != "b1" {
			return fmt.Errorf("canon: bool token expected, got %q", t)
		}
		v.SetBool(t == "b1")
	case reflect.Struct:
		if t != "{" {
			return fmt.Errorf("canon: { expected, got %q", t)
		}
		for {
			name, err := r.next()
			if err != nil {
				return err
			}
			if name == "}" {
				return nil
			}
			f := v.FieldByName(name)
			if !f.IsValid() || !f.CanSet() {
				return fmt.Errorf("canon: no field %s in %s", name, v.Type())
			}
			if err := r.read(f); err != nil {
				return err
			}
		}
	case reflect.Slice:
		if t == "nil" {
			v.Set(reflect.Zero(v.Type()))
			return nil
		}
		if t != "[" {
			return fmt.Errorf("canon: [ expected, got %q", t)
		}
		s := reflect.MakeSlice(v.Type(), 0, 0)
		for r.peek() != "]" {
			e := reflect.New(v.Type().Elem()).Elem()
			if err := r.read(e); err != nil {
				return err
			}
			s = reflect.Append(s, e)
		}
		r.pos++
		v.Set(s)
	case reflect.Map:
		if t == "nil" {
			v.Set(reflect.Zero(v.Type()))
			return nil
		}
		if t != "<" {
			return fmt.Errorf("canon: < expected, got %q", t)
		}
		m := reflect.MakeMap(v.Type())
		for r.peek() != ">" {
			kt, err := r.next()
			if err != nil {
				return err
			}
			vt, err := r.next()
			if err != nil {
				return err
			}
			ks, err := c15ParseStrTok(kt)
			if err != nil {
				return err
			}
			vs, err := c15ParseStrTok(vt)
			if err != nil {
				return err
			}
			m.SetMapIndex(reflect.ValueOf(ks).Convert(v.Type().Key()), reflect.ValueOf(vs).Convert(v.Type().Elem()))
		}
		r.pos++
		v.Set(m)
	case reflect.Ptr:
		if t == "nil" {
			v.Set(reflect.Zero(v.Type()))
			return nil
		}
		if t != "^" {
			return fmt.Errorf("canon: ^ expected, got %q", t)
		}
		st, err := r.next()
		if err != nil {
			return err
		}
		if st == "=" {
			v.Set(reflect.ValueOf(c15Self)) // replaced by the root value once it is built
			return nil
		}
		s, err := c15ParseStrTok(st)
		if err != nil {
			return err
		}
		if v.Type() != reflect.TypeOf((*poly.Sequence)(nil)) {
			return fmt.Errorf("canon: pointer type %s", v.Type())
		}
		v.Set(reflect.ValueOf(&poly.Sequence{Sequence: s}))
	default:
		return fmt.Errorf("canon: kind %s", v.Kind())
	}
	return nil
}

// c15Uncanon builds the value; a feature whose parent text equals the sequence text is linked to
// the value itself (what AddFeature does), any other non-nil parent to a separate sequence struct.
func c15Uncanon(text string) (*poly.Sequence, error) {
	x := new(poly.Sequence)
	r := &c15Reader{toks: strings.Split(text, " ")}
	if err := r.read(reflect.ValueOf(x).Elem()); err != nil {
		return nil, err
	}
	if r.pos != len(r.toks) {
		return nil, fmt.Errorf("canon: trailing tokens")
	}
	for i := range x.Features {
		if p := x.Features[i].ParentSequence; p == c15Self || (p != nil && p.Sequence == x.Sequence) {
			x.Features[i].ParentSequence = x
		}
	}
	return x, nil
}

func c15Text(b []byte) string {
	// raw NUL bytes do not go through the line protocol's readers
	if utf8.Valid(b) && !strings.Contains(string(b), "\x00") {
		return "ok:" + string(b)
	}
	return "okx:" + hex.EncodeToString(b)
}

func c15Guard(f func() []byte) (res string) {
	defer func() {
		if p := recover(); p != nil {
			res = "panic"
		}
	}()
	return c15Text(f())
}

func c15GetSeqs(x poly.Sequence) string {
	outs := make([]string, 0, len(x.Features))
	for _, f := range x.Features {
		f := f
		outs = append(outs, func() (res string) {
			defer func() {
				if p := recover(); p != nil {
					res = "panic"
				}
			}()
			return "ok:" + c15StrTok(f.GetSequence())
		}())
	}
	return strings.Join(outs, ",")
}

func c15TempFile() string {
	dir := os.Getenv("VERIF_TMP")
	if dir == "" {
		// <verif>/build/bin/run-io  →  <verif>/build/C15/tmp
		dir = "/verif/build/C15/tmp"
		if exe, err := os.Executable(); err == nil {
			dir = filepath.Join(filepath.Dir(filepath.Dir(exe)), "C15", "tmp")
		}
	}
	_ = os.MkdirAll(dir, 0o755)
	return filepath.Join(dir, fmt.Sprintf("c15-%d-%d.json", os.Getpid(), runner.Unique()))
}

// c15Diff compares two values of any type field by field, whatever the field set is (reflect): "" when they are
// equal values — a nil slice / map equals an empty one, pointer fields (parent links) are not part of the value —
// else the path of the first difference.  It lets the judge decide losslessness on the implementation's own values
// also for fields the Lean model does not know.
func c15Diff(a, b reflect.Value, path string) string {
	switch a.Kind() {
	case reflect.Struct:
		for i := 0; i < a.NumField(); i++ {
			if d := c15Diff(a.Field(i), b.Field(i), path+"."+a.Type().Field(i).Name); d != "" {
				return d
			}
		}
	case reflect.Slice, reflect.Array:
		if a.Len() != b.Len() {
			return path + ":len"
		}
		for i := 0; i < a.Len(); i++ {
			if d := c15Diff(a.Index(i), b.Index(i), fmt.Sprintf("%s[%d]", path, i)); d != "" {
				return d
			}
		}
	case reflect.Map:
		if a.Len() != b.Len() {
			return path + ":len"
		}
		for _, k := range a.MapKeys() {
			bv := b.MapIndex(k)
			if !bv.IsValid() {
				return path + ":key"
			}
			if d := c15Diff(a.MapIndex(k), bv, path+"[key]"); d != "" {
				return d
			}
		}
	case reflect.Ptr, reflect.Interface, reflect.Func, reflect.Chan, reflect.UnsafePointer:
		return ""
	default:
		if !reflect.DeepEqual(a.Interface(), b.Interface()) {
			return path
		}
	}
	return ""
}

func c15Same(a, b poly.Sequence) string {
	if d := c15Diff(reflect.ValueOf(a), reflect.ValueOf(b), ""); d != "" {
		return "diff:" + d
	}
	return "same"
}

// c15Longer is a value whose every serialisation is longer than x's: it is written to a path first, so
// that the write of x that follows lands on a file that already holds a longer document (a Write that
// does not truncate leaves the old tail behind).
func c15Longer(x poly.Sequence) poly.Sequence {
	l := x
	l.Sequence = x.Sequence + strings.Repeat("ACGT", 1500)
	l.Description = x.Description + strings.Repeat("previous content ", 300)
	l.Meta.Name = x.Meta.Name + "previous"
	return l
}

func init() {
	runner.Register("c15rt", func(a []string) ([]string, error) {
		xp, err := c15Uncanon(a[0])
		if err != nil {
			return nil, err
		}
		x := *xp
		jtext, err := json.Marshal(x)
		if err != nil {
			return nil, err
		}
		rt := polyjson.Parse(jtext)
		crt, err := c15Canon(rt)
		if err != nil {
			return nil, err
		}
		refl := []string{c15Same(x, rt)}
		path := c15TempFile()
		defer os.Remove(path)
		polyjson.Write(c15Longer(x), path) // history on one path: a longer document first
		polyjson.Write(x, path)
		ftext, err := os.ReadFile(path)
		if err != nil {
			return nil, err
		}
		rd := polyjson.Read(path)
		refl = append(refl, c15Same(x, rd))
		crd, err := c15Canon(rd)
		if err != nil {
			return nil, err
		}
		// history of READS on one path: a longer document is written and read; then the file is replaced by x's
		// document WITHOUT polyjson.Write (stored by the caller with os.WriteFile, as `poly c -o json` output is; and
		// once more moved into place with os.Rename); the value returned by a Read is edited in place (its maps and
		// slices) — every later Read must still report what the file holds, i.e. x
		hpath := c15TempFile()
		defer os.Remove(hpath)
		polyjson.Write(c15Longer(x), hpath)
		_ = polyjson.Read(hpath)
		if err := os.WriteFile(hpath, ftext, 0o644); err != nil {
			return nil, err
		}
		rd2 := polyjson.Read(hpath)
		refl = append(refl, c15Same(x, rd2))
		crd2, err := c15Canon(rd2)
		if err != nil {
			return nil, err
		}
		rd2.Description = "edited"
		rd2.Meta.Name = "edited"
		if rd2.Meta.Other != nil {
			rd2.Meta.Other["edited"] = "edited"
		}
		for i := range rd2.Features {
			rd2.Features[i].Type = "edited"
			if rd2.Features[i].Attributes != nil {
				rd2.Features[i].Attributes["edited"] = "edited"
			}
		}
		for i := range rd2.Meta.References {
			rd2.Meta.References[i].Title = "edited"
		}
		rd3 := polyjson.Read(hpath)
		refl = append(refl, c15Same(x, rd3))
		crd3, err := c15Canon(rd3)
		if err != nil {
			return nil, err
		}
		polyjson.Write(c15Longer(x), hpath)
		_ = polyjson.Read(hpath)
		tmp := hpath + ".new"
		if err := os.WriteFile(tmp, ftext, 0o644); err != nil {
			return nil, err
		}
		if err := os.Rename(tmp, hpath); err != nil {
			return nil, err
		}
		rd4 := polyjson.Read(hpath)
		refl = append(refl, c15Same(x, rd4))
		crd4, err := c15Canon(rd4)
		if err != nil {
			return nil, err
		}
		fromLean := polyjson.Parse([]byte(a[1]))
		refl = append(refl, c15Same(x, fromLean))
		cfl, err := c15Canon(fromLean)
		if err != nil {
			return nil, err
		}
		// a field that is byte-identical to the field it is compared with is sent as "=" (the replies of the
		// thorough tier add up to many GB otherwise); the driver expands it
		same := func(v, ref string) string {
			if v == ref {
				return "="
			}
			return v
		}
		gbx := c15Guard(func() []byte { return genbank.Build(x) })
		gbrt := c15Guard(func() []byte { return genbank.Build(rt) })
		gfx := c15Guard(func() []byte { return gff.Build(x) })
		gfrt := c15Guard(func() []byte { return gff.Build(rt) })
		gsx := c15GetSeqs(x)
		return []string{string(jtext), crt, gsx, same(c15GetSeqs(rt), gsx), string(ftext), same(crd, crt), same(cfl, crt),
			gbx, same(gbrt, gbx), gfx, same(gfrt, gfx),
			same(crd2, crt), same(crd3, crt), same(crd4, crt), strings.Join(refl, ",")}, nil
	})
	runner.Register("c15dec", func(a []string) ([]string, error) {
		c, err := c15Canon(polyjson.Parse([]byte(a[0])))
		if err != nil {
			return nil, err
		}
		return []string{c}, nil
	})
	// c15conv gbk|gff text|hex <file>: every step is guarded on its own, so that the reply says WHERE
	// something failed: a parser (or direct writer) that rejects the generated file is not a statement
	// about JSON; anything that fails after that is.  Reply fields:
	//   parse status, canon(p), Build(p), json.Marshal(p), canon(polyjson.Parse(json)), Build(that),
	//   GetSequence of p's features, of the parsed features, Build(polyjson.Read(polyjson.Write(p))),
	//   Build(json.Unmarshal(json.MarshalIndent(p))), the file left by the format's Write on a used path
	//                                                          — failed steps read "!panic" / "!err"
	runner.Register("c15conv", func(a []string) ([]string, error) {
		var parse func([]byte) poly.Sequence
		var build func(poly.Sequence) []byte
		var write func(poly.Sequence, string)
		switch a[0] {
		case "gbk":
			parse, build, write = genbank.Parse, genbank.Build, genbank.Write
		case "gff":
			parse, build, write = gff.Parse, gff.Build, gff.Write
		default:
			return nil, fmt.Errorf("format %q", a[0])
		}
		file := []byte(a[2])
		if a[1] == "hex" {
			b, err := hex.DecodeString(a[2])
			if err != nil {
				return nil, err
			}
			file = b
		}
		step := func(f func() (string, error)) (res string) {
			defer func() {
				if p := recover(); p != nil {
					res = "!panic"
				}
			}()
			r, err := f()
			if err != nil {
				return "!err"
			}
			return r
		}
		var p poly.Sequence
		if st := step(func() (string, error) { p = parse(file); return "ok", nil }); st != "ok" {
			return []string{st}, nil
		}
		cp := step(func() (string, error) { return c15Canon(p) })
		direct := step(func() (string, error) { return c15Text(build(p)), nil })
		var jtext []byte
		js := step(func() (string, error) {
			var err error
			jtext, err = json.Marshal(p)
			return string(jtext), err
		})
		var rt poly.Sequence
		crt := step(func() (string, error) { rt = polyjson.Parse(jtext); return c15Canon(rt) })
		refl := step(func() (string, error) { return c15Same(p, rt), nil })
		via := step(func() (string, error) { return c15Text(build(rt)), nil })
		gsp := step(func() (string, error) { return c15GetSeqs(p), nil })
		gsrt := step(func() (string, error) { return c15GetSeqs(rt), nil })
		// the two paths of `poly convert`: files (polyjson.Write, polyjson.Read) and pipes
		// (json.MarshalIndent, plain json.Unmarshal without re-linking)
		viaFile := step(func() (string, error) {
			path := c15TempFile()
			defer os.Remove(path)
			polyjson.Write(c15Longer(p), path) // history on one path: a longer document first
			polyjson.Write(p, path)
			return c15Text(build(polyjson.Read(path))), nil
		})
		// the format's own Write on a path that already holds a longer file: the file must be Build(p)
		viaWrite := step(func() (string, error) {
			path := c15TempFile()
			defer os.Remove(path)
			write(c15Longer(p), path)
			write(p, path)
			b, err := os.ReadFile(path)
			return c15Text(b), err
		})
		viaPipe := step(func() (string, error) {
			itext, err := json.MarshalIndent(p, "", " ")
			if err != nil {
				return "", err
			}
			var piped poly.Sequence
			if err := json.Unmarshal(itext, &piped); err != nil {
				return "", err
			}
			return c15Text(build(piped)), nil
		})
		same := func(v, ref string) string {
			if v == ref && !strings.HasPrefix(v, "!") {
				return "=" // byte-identical to the field it is compared with
			}
			return v
		}
		return []string{"ok", cp, direct, js, crt, same(via, direct), gsp, same(gsrt, gsp), same(viaFile, direct),
			same(viaPipe, direct), same(viaWrite, direct), refl}, nil
	})
}
