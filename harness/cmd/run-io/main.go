// Command run-io: harness binary for this package group (ops are registered from the ops_*.go files).
package main

import "verifharness/runner"

func main() { runner.Main() }
