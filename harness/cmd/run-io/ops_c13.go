package main

// C13 — FASTA: Parse / Build / Write→Read / Write→gzip→ReadGz / ParseConcurrent on channels of
// every capacity with a randomly stalling consumer.

import (
	"bytes"
	"compress/gzip"
	"fmt"
	"math/rand"
	"os"
	"runtime"
	"strconv"
	"strings"
	"time"

	"github.com/TimothyStiles/poly/io/fasta"

	"verifharness/runner"
)

func init() {
	runner.Register("c13.parse", c13Parse)
	runner.Register("c13.build", c13Build)
	runner.Register("c13.stream", c13Stream)
}

func c13TmpDir() string {
	d := os.Getenv("VERIF_TMP")
	if d == "" {
		d = "/verif/build/tmp"
	}
	_ = os.MkdirAll(d, 0o755)
	return d
}

func c13TempFile(content []byte, gz bool) (string, error) {
	f, err := os.CreateTemp(c13TmpDir(), "c13-*")
	if err != nil {
		return "", err
	}
	defer f.Close()
	if gz {
		w := gzip.NewWriter(f)
		if _, err := w.Write(content); err != nil {
			return f.Name(), err
		}
		if err := w.Close(); err != nil {
			return f.Name(), err
		}
		return f.Name(), nil
	}
	_, err = f.Write(content)
	return f.Name(), err
}

func c13Recs(fs []fasta.Fasta) []string {
	out := []string{strconv.Itoa(len(fs))}
	for _, f := range fs {
		out = append(out, f.Name, f.Sequence)
	}
	return out
}

// readVia: mode plain = Parse on a reader; file = Read(path); gz = gzip with Go's writer, ReadGz(path)
func c13ReadVia(mode string, text []byte) ([]fasta.Fasta, error) {
	switch mode {
	case "plain":
		return fasta.Parse(bytes.NewReader(text)), nil
	case "file", "gz":
		path, err := c13TempFile(text, mode == "gz")
		if path != "" {
			defer os.Remove(path)
		}
		if err != nil {
			return nil, err
		}
		if mode == "gz" {
			return fasta.ReadGz(path), nil
		}
		return fasta.Read(path), nil
	}
	return nil, fmt.Errorf("bad mode %q", mode)
}

// c13.parse mode text -> n name seq ...
func c13Parse(args []string) ([]string, error) {
	if len(args) != 2 {
		return nil, fmt.Errorf("c13.parse: want mode text")
	}
	fs, err := c13ReadVia(args[0], []byte(args[1]))
	if err != nil {
		return nil, err
	}
	return c13Recs(fs), nil
}

func c13Input(args []string) ([]fasta.Fasta, error) {
	n, err := strconv.Atoi(args[0])
	if err != nil || len(args) != 1+2*n {
		return nil, fmt.Errorf("bad record list")
	}
	fs := make([]fasta.Fasta, n)
	for i := 0; i < n; i++ {
		fs[i] = fasta.Fasta{Name: args[1+2*i], Sequence: args[2+2*i]}
	}
	if n == 0 {
		fs = nil
	}
	return fs, nil
}

// c13.build mode n name seq ... -> text n' name seq ...
// plain: Parse(Build(rs)); file: Write(rs,path) then Read(path); gz: Write, gzip the file with Go's writer, ReadGz
func c13Build(args []string) ([]string, error) {
	if len(args) < 2 {
		return nil, fmt.Errorf("c13.build: want mode n recs")
	}
	fs, err := c13Input(args[1:])
	if err != nil {
		return nil, err
	}
	text := fasta.Build(fs)
	var got []fasta.Fasta
	switch args[0] {
	case "plain":
		got = fasta.Parse(bytes.NewReader(text))
	case "file", "gz":
		f, err := os.CreateTemp(c13TmpDir(), "c13w-*")
		if err != nil {
			return nil, err
		}
		path := f.Name()
		f.Close()
		defer os.Remove(path)
		fasta.Write(fs, path)
		written, err := os.ReadFile(path)
		if err != nil {
			return nil, err
		}
		if !bytes.Equal(written, text) {
			return nil, fmt.Errorf("Write wrote something else than Build")
		}
		if args[0] == "file" {
			got = fasta.Read(path)
		} else {
			gzPath, err := c13TempFile(written, true)
			if gzPath != "" {
				defer os.Remove(gzPath)
			}
			if err != nil {
				return nil, err
			}
			got = fasta.ReadGz(gzPath)
		}
	default:
		return nil, fmt.Errorf("bad mode %q", args[0])
	}
	return append([]string{string(text)}, c13Recs(got)...), nil
}

// c13.stream src cap seed stallPermille text -> closedOnce n name seq ...
// src mem: ParseConcurrent on a reader in a goroutine of ours (a panic of the producer — send on or close of
// a closed channel — is caught and reported); file / gz: ReadConcurrent / ReadGzConcurrent on a temp file.
// The consumer receives with `v, ok := <-ch`, stalling at random (yield, sleep, spin) before receives; after
// the first !ok it receives once more, which must again return !ok immediately.
func c13Stream(args []string) ([]string, error) {
	if len(args) != 5 {
		return nil, fmt.Errorf("c13.stream: want src cap seed stall text")
	}
	capacity, err1 := strconv.Atoi(args[1])
	seed, err2 := strconv.ParseInt(args[2], 10, 64)
	stall, err3 := strconv.Atoi(args[3])
	if err1 != nil || err2 != nil || err3 != nil {
		return nil, fmt.Errorf("bad numbers")
	}
	text := args[4]
	ch := make(chan fasta.Fasta, capacity)
	done := make(chan interface{}, 1)
	switch args[0] {
	case "mem":
		go func() {
			defer func() { done <- recover() }()
			fasta.ParseConcurrent(strings.NewReader(text), ch)
		}()
	case "file", "gz":
		path, err := c13TempFile([]byte(text), args[0] == "gz")
		if path != "" {
			defer os.Remove(path)
		}
		if err != nil {
			return nil, err
		}
		if args[0] == "gz" {
			fasta.ReadGzConcurrent(path, ch)
		} else {
			fasta.ReadConcurrent(path, ch)
		}
		done <- nil
	default:
		return nil, fmt.Errorf("bad src %q", args[0])
	}
	rng := rand.New(rand.NewSource(seed))
	pause := func() {
		if rng.Intn(1000) >= stall {
			return
		}
		switch rng.Intn(4) {
		case 0:
			runtime.Gosched()
		case 1:
			time.Sleep(time.Duration(1+rng.Intn(300)) * time.Microsecond)
		case 2:
			x := 0
			for i := 0; i < 1+rng.Intn(20000); i++ {
				x += i
			}
			_ = x
		case 3:
			time.Sleep(time.Duration(1+rng.Intn(3)) * time.Millisecond)
		}
	}
	var got []fasta.Fasta
	for {
		pause()
		f, ok := <-ch
		if !ok {
			break
		}
		got = append(got, f)
	}
	closedOnce := true
	select {
	case _, ok := <-ch:
		if ok {
			closedOnce = false // a value after "closed"
		}
	case <-time.After(2 * time.Second):
		closedOnce = false
	}
	select {
	case p := <-done:
		if p != nil {
			closedOnce = false // the producer panicked: send on / close of a closed channel
		}
	case <-time.After(5 * time.Second):
		closedOnce = false // the producer did not return after closing
	}
	flag := "0"
	if closedOnce {
		flag = "1"
	}
	return append([]string{flag}, c13Recs(got)...), nil
}
