package main

// C13 — FASTA: Parse / Build / Write→Read / Write→gzip→ReadGz / ParseConcurrent on channels of
// every capacity with a randomly stalling consumer.

import (
	"bytes"
	"compress/gzip"
	"fmt"
	"io"
	"sync"
	"math/rand"
	"os"
	"path/filepath"
	"runtime"
	"strconv"
	"strings"
	"time"

	"github.com/TimothyStiles/poly/io/fasta"

	"verifharness/runner"
)

func init() {
	runner.Register("c13.parse", c13Parse)
	runner.Register("c13.build", c13Build)
	runner.Register("c13.stream", c13Stream)
}

// ioDeadline / ioBlocked: the streaming ops wait for the library with a generous deadline of their own.
// A correct parser never gets near it. When it is hit the library call is stuck for good (or spinning): the
// request ends as `timeout` through runner.TimeoutNow (the process exits, taking the stuck goroutines with
// it) and a marker for this check run (keyed by the parent process) is left, so that the following
// requests of a run that has already failed wait only briefly — a broken parser that blocks on every
// case then costs minutes, not hours.
func ioMarker() string { return fmt.Sprintf("%s/io-blocked-%d", c13TmpDir(), os.Getppid()) }

// parentStart: the start time of the parent process (field 22 of /proc/<ppid>/stat, clock ticks since
// boot) — with the pid it identifies the check run; pids are reused, start times of a reused pid differ
func parentStart() string {
	b, err := os.ReadFile(fmt.Sprintf("/proc/%d/stat", os.Getppid()))
	if err != nil {
		return ""
	}
	rest := string(b)
	if i := strings.LastIndex(rest, ")"); i >= 0 { // the command name may contain blanks and parentheses
		rest = rest[i+1:]
	}
	f := strings.Fields(rest)
	if len(f) < 20 {
		return ""
	}
	return f[19] // field 22 of the whole line = 20th after the command name
}

// ioShortened: a request of THIS run (same parent pid and parent start time) was already found blocked, so
// the run has failed and later requests wait only briefly
func ioShortened() bool {
	b, err := os.ReadFile(ioMarker())
	if err != nil {
		return false
	}
	ps := parentStart()
	return ps != "" && strings.HasPrefix(string(b), ps+"\n")
}

func ioDeadline(ms int) time.Duration {
	if ioShortened() && ms > 500 {
		ms = 500
	}
	return time.Duration(ms) * time.Millisecond
}

// ioBlocked ends the request as `timeout` with the reason and detail fields; `files` are the temporary files
// of the request (the deferred removals do not run on this path). Markers of runs whose parent process is
// gone are removed. Does not return.
func ioBlocked(files []string, reason string, detail ...string) {
	for _, f := range files {
		_ = os.Remove(f)
	}
	kind := "blocked"
	if ioShortened() {
		kind = "blocked-followon" // judged with the 500 ms deadline of an already failed run
	}
	if ms, err := os.ReadDir(c13TmpDir()); err == nil {
		for _, m := range ms {
			var pid int
			if _, err := fmt.Sscanf(m.Name(), "io-blocked-%d", &pid); err == nil {
				if _, err := os.Stat(fmt.Sprintf("/proc/%d", pid)); err != nil {
					_ = os.Remove(c13TmpDir() + "/" + m.Name())
				}
			}
		}
	}
	_ = os.WriteFile(ioMarker(), []byte(parentStart()+"\n"+reason+"\n"), 0o644)
	runner.TimeoutNow(append([]string{kind, reason}, detail...)...)
}

// c13TmpDir: VERIF_TMP, else <build>/tmp next to the <build>/bin the executable lives in (so that a check run
// from a scratch copy of /verif keeps its files inside that copy), else /verif/build/tmp
func c13TmpDir() string {
	d := os.Getenv("VERIF_TMP")
	if d == "" {
		d = "/verif/build/tmp"
		if exe, err := os.Executable(); err == nil {
			dir := filepath.Dir(exe)
			for i := 0; i < 3 && dir != "/" && dir != "."; i++ {
				if filepath.Base(dir) == "bin" {
					d = filepath.Join(filepath.Dir(dir), "tmp")
					break
				}
				dir = filepath.Dir(dir)
			}
		}
	}
	_ = os.MkdirAll(d, 0o755)
	return d
}

// c13TempFile writes content to a temp file: gz 0 = as is, 1 = one gzip member, 2 = a gzip stream of two
// members (the content cut in the middle — `cat a.gz b.gz`, the shape of bgzip'd and concatenated files)
func c13TempFile(content []byte, gz int) (string, error) {
	f, err := os.CreateTemp(c13TmpDir(), "c13-*")
	if err != nil {
		return "", err
	}
	defer f.Close()
	if gz > 0 {
		parts := [][]byte{content}
		if gz == 2 {
			parts = [][]byte{content[:len(content)/2], content[len(content)/2:]}
		}
		for _, part := range parts {
			w := gzip.NewWriter(f)
			if _, err := w.Write(part); err != nil {
				return f.Name(), err
			}
			if err := w.Close(); err != nil {
				return f.Name(), err
			}
		}
		return f.Name(), nil
	}
	_, err = f.Write(content)
	return f.Name(), err
}

// c13OtherText: a second input for the "hold the result across another call" steps: 3 records, one line
// beyond 64 KiB, letters that do not occur in generated sequences' first positions
var c13OtherText = ">other one\n" + strings.Repeat("XYZXYZXYZW", 7000) + "\n>other two\nXXXXXXXXXXXXXXXXXXXXXXXX\nYYYY\n>o3\n\n"

// what the parsers must make of c13OtherText
var c13OtherWant = []fasta.Fasta{{Name: "other one", Sequence: strings.Repeat("XYZXYZXYZW", 7000)},
	{Name: "other two", Sequence: "XXXXXXXXXXXXXXXXXXXXXXXXYYYY"}, {Name: "o3", Sequence: ""}}

func c13SameRecs(a, b []fasta.Fasta) bool {
	if len(a) != len(b) {
		return false
	}
	for i := range a {
		if a[i] != b[i] {
			return false
		}
	}
	return true
}

// c13ParseConcurrently: the judged text is parsed while OTHER parsers run in the same process — two more
// Parse calls on the same text and one on c13OtherText, each in its own goroutine. All results are judged:
// the copies must agree, the other text must come out as c13OtherWant (a parser with package-level state
// mixes the inputs). The first copy is reported.
func c13ParseConcurrently(text []byte) ([]fasta.Fasta, error) {
	var wg sync.WaitGroup
	copies := make([][]fasta.Fasta, 3)
	var other []fasta.Fasta
	for i := range copies {
		wg.Add(1)
		go func(i int) {
			defer wg.Done()
			copies[i] = fasta.Parse(bytes.NewReader(text))
		}(i)
	}
	wg.Add(1)
	go func() {
		defer wg.Done()
		other = fasta.Parse(strings.NewReader(c13OtherText))
	}()
	wg.Wait()
	if !c13SameRecs(copies[0], copies[1]) || !c13SameRecs(copies[0], copies[2]) {
		return nil, fmt.Errorf("concurrent Parse calls on the same text returned different records")
	}
	if !c13SameRecs(other, c13OtherWant) {
		return nil, fmt.Errorf("a Parse call running concurrently on another text returned wrong records (%d records)", len(other))
	}
	return copies[0], nil
}

// c13OtherList derives a different list of the same shape and size (names and sequences of the same
// lengths, every letter replaced), so that a recycled buffer of Build would be overwritten in place
func c13OtherList(fs []fasta.Fasta) []fasta.Fasta {
	out := make([]fasta.Fasta, 0, len(fs)+1)
	for _, f := range fs {
		out = append(out, fasta.Fasta{Name: strings.Repeat("#", len(f.Name)), Sequence: strings.Repeat("X", len(f.Sequence))})
	}
	return append(out, fasta.Fasta{Name: "extra", Sequence: "XXXX"})
}

func c13GzKind(mode string) int {
	switch mode {
	case "gz":
		return 1
	case "gz2":
		return 2
	}
	return 0
}

func c13Recs(fs []fasta.Fasta) []string {
	out := []string{strconv.Itoa(len(fs))}
	for _, f := range fs {
		out = append(out, f.Name, f.Sequence)
	}
	return out
}

// readVia: mode plain = Parse on a reader; file = Read(path); gz = gzip with Go's writer, ReadGz(path)
func c13ReadVia(mode string, text []byte) ([]fasta.Fasta, error) {
	switch mode {
	case "plain":
		// the result is held while the parser is used again on another, larger text (a result that
		// aliases a reused buffer would change under our feet), and reported afterwards
		got := fasta.Parse(bytes.NewReader(text))
		_ = fasta.Parse(strings.NewReader(c13OtherText))
		// ... and the same text again with other parsers running at the same time
		conc, err := c13ParseConcurrently(text)
		if err != nil {
			return nil, err
		}
		if !c13SameRecs(got, conc) {
			return nil, fmt.Errorf("Parse alone and Parse next to other parsers returned different records")
		}
		return got, nil
	case "file", "gz", "gz2":
		path, err := c13TempFile(text, c13GzKind(mode))
		if path != "" {
			defer os.Remove(path)
		}
		if err != nil {
			return nil, err
		}
		if mode != "file" {
			return fasta.ReadGz(path), nil
		}
		return fasta.Read(path), nil
	}
	return nil, fmt.Errorf("bad mode %q", mode)
}

// c13.parse mode text -> n name seq ...
func c13Parse(args []string) ([]string, error) {
	if len(args) != 2 {
		return nil, fmt.Errorf("c13.parse: want mode text")
	}
	fs, err := c13ReadVia(args[0], []byte(args[1]))
	if err != nil {
		return nil, err
	}
	return c13Recs(fs), nil
}

func c13Input(args []string) ([]fasta.Fasta, error) {
	n, err := strconv.Atoi(args[0])
	if err != nil || len(args) != 1+2*n {
		return nil, fmt.Errorf("bad record list")
	}
	fs := make([]fasta.Fasta, n)
	for i := 0; i < n; i++ {
		fs[i] = fasta.Fasta{Name: args[1+2*i], Sequence: args[2+2*i]}
	}
	if n == 0 {
		fs = nil
	}
	return fs, nil
}

// c13.build mode n name seq ... -> text stable n' name seq ...
// plain: Parse(Build(rs)); file: Write(rs,path) then Read(path); gz: Write, gzip the file with Go's writer, ReadGz
func c13Build(args []string) ([]string, error) {
	if len(args) < 2 {
		return nil, fmt.Errorf("c13.build: want mode n recs")
	}
	fs, err := c13Input(args[1:])
	if err != nil {
		return nil, err
	}
	// HISTORY: build the text, KEEP the returned bytes (no copy), then call Build again on other lists —
	// sequentially and from two goroutines — and only then look at the kept bytes.
	text := fasta.Build(fs)
	snapshot := string(text) // an independent copy taken at once, for the comparison below only
	other := c13OtherList(fs)
	_ = fasta.Build(other)
	var wg sync.WaitGroup
	held := make([][]byte, 4)
	for g := 0; g < 2; g++ {
		wg.Add(1)
		go func(g int) {
			defer wg.Done()
			held[2*g] = fasta.Build(fs)
			_ = fasta.Build(other)
			held[2*g+1] = fasta.Build(fs)
		}(g)
	}
	wg.Wait()
	_ = fasta.Build(other)
	stable := "1"
	if string(text) != snapshot {
		stable = "0"
	}
	for _, h := range held {
		if string(h) != snapshot {
			stable = "0"
		}
	}
	var got []fasta.Fasta
	switch args[0] {
	case "plain":
		got = fasta.Parse(bytes.NewReader(text))
	case "file", "gz", "gz2":
		f, err := os.CreateTemp(c13TmpDir(), "c13w-*")
		if err != nil {
			return nil, err
		}
		path := f.Name()
		f.Close()
		defer os.Remove(path)
		// HISTORY on one path: a LONGER list is written there first, then the list under test; the file must
		// then hold exactly Build's bytes (a writer that does not truncate leaves the old tail) and read back
		// as the list
		longer := append(append(c13OtherList(fs), c13OtherList(fs)...), fs...)
		fasta.Write(longer, path)
		fasta.Write(fs, path)
		written, err := os.ReadFile(path)
		if err != nil {
			return nil, err
		}
		if !bytes.Equal(written, text) {
			return nil, fmt.Errorf("after Write the file holds %d bytes that are not Build's %d bytes (written over a longer file)", len(written), len(text))
		}
		if args[0] == "file" {
			got = fasta.Read(path)
		} else {
			gzPath, err := c13TempFile(written, c13GzKind(args[0]))
			if gzPath != "" {
				defer os.Remove(gzPath)
			}
			if err != nil {
				return nil, err
			}
			got = fasta.ReadGz(gzPath)
		}
	default:
		return nil, fmt.Errorf("bad mode %q", args[0])
	}
	return append([]string{string(text), stable}, c13Recs(got)...), nil
}

// c13.stream src cap seed stallPermille text -> closedOnce n name seq ...   (src: mem | pipe | file | gz | gz2 | gzhist)
// src mem: ParseConcurrent on a reader in a goroutine of ours (a panic of the producer — send on or close of
// a closed channel — is caught and reported); file / gz: ReadConcurrent / ReadGzConcurrent on a temp file.
// The consumer receives with `v, ok := <-ch`, stalling at random (yield, sleep, spin) before receives; after
// the first !ok it receives once more, which must again return !ok immediately.
func c13Stream(args []string) ([]string, error) {
	if len(args) != 5 {
		return nil, fmt.Errorf("c13.stream: want src cap seed stall text")
	}
	capacity, err1 := strconv.Atoi(args[1])
	seed, err2 := strconv.ParseInt(args[2], 10, 64)
	stall, err3 := strconv.Atoi(args[3])
	if err1 != nil || err2 != nil || err3 != nil {
		return nil, fmt.Errorf("bad numbers")
	}
	text := args[4]
	ch := make(chan fasta.Fasta, capacity)
	done := make(chan interface{}, 1)
	var tmpFiles []string
	var gzHistory func() error
	// ANOTHER streaming parser runs in the same process while the judged one does, on another text and
	// another channel, drained by its own consumer; its records are checked at the end
	otherCh := make(chan fasta.Fasta, capacity%3)
	otherGot := make(chan []fasta.Fasta, 1)
	go fasta.ParseConcurrent(strings.NewReader(c13OtherText), otherCh)
	go func() {
		var rs []fasta.Fasta
		for f := range otherCh {
			rs = append(rs, f)
		}
		otherGot <- rs
	}()
	switch args[0] {
	case "mem":
		go func() {
			defer func() { done <- recover() }()
			fasta.ParseConcurrent(strings.NewReader(text), ch)
		}()
	case "pipe":
		// a slow reader: the text arrives in small pieces with pauses, so that parsing overlaps consumption
		// (records are finished while the consumer is stalled, and slots are freed while the parser reads on)
		pr, pw := io.Pipe()
		feed := rand.New(rand.NewSource(seed ^ 0x5eed))
		go func() {
			data := []byte(text)
			for len(data) > 0 {
				n := 1 + feed.Intn(48)
				if n > len(data) {
					n = len(data)
				}
				if _, err := pw.Write(data[:n]); err != nil {
					return
				}
				data = data[n:]
				switch feed.Intn(4) {
				case 0:
					runtime.Gosched()
				case 1:
					time.Sleep(time.Duration(1+feed.Intn(150)) * time.Microsecond)
				}
			}
			pw.Close()
		}()
		go func() {
			defer func() { done <- recover() }()
			fasta.ParseConcurrent(pr, ch)
		}()
	case "gzhist":
		// HISTORY of gzip reads: ReadGzConcurrent on file A (the text under test) is started and a few records
		// are consumed; THEN file B is read with ReadGz and with another ReadGzConcurrent, completely; then the
		// rest of A is consumed. Both results are judged (B by the harness, A by the judge).
		pathA, err := c13TempFile([]byte(text), 1)
		if pathA != "" {
			defer os.Remove(pathA)
			tmpFiles = append(tmpFiles, pathA)
		}
		if err != nil {
			return nil, err
		}
		pathB, err := c13TempFile([]byte(c13OtherText), 1)
		if pathB != "" {
			defer os.Remove(pathB)
			tmpFiles = append(tmpFiles, pathB)
		}
		if err != nil {
			return nil, err
		}
		fasta.ReadGzConcurrent(pathA, ch)
		done <- nil
		gzHistory = func() error {
			if b := fasta.ReadGz(pathB); !c13SameRecs(b, c13OtherWant) {
				return fmt.Errorf("ReadGz of a second file while the first stream was unread returned wrong records (%d records)", len(b))
			}
			chB := make(chan fasta.Fasta, 1)
			fasta.ReadGzConcurrent(pathB, chB)
			var b []fasta.Fasta
			to := time.After(ioDeadline(20000))
			for open := true; open; {
				select {
				case f, ok := <-chB:
					if !ok {
						open = false
					} else {
						b = append(b, f)
					}
				case <-to:
					ioBlocked(tmpFiles, "ReadGzConcurrent of a second file did not finish")
				}
			}
			if !c13SameRecs(b, c13OtherWant) {
				return fmt.Errorf("ReadGzConcurrent of a second file while the first stream was unread delivered wrong records (%d records)", len(b))
			}
			return nil
		}
	case "file", "gz", "gz2":
		path, err := c13TempFile([]byte(text), c13GzKind(args[0]))
		if path != "" {
			defer os.Remove(path)
			tmpFiles = append(tmpFiles, path)
		}
		if err != nil {
			return nil, err
		}
		if args[0] != "file" {
			fasta.ReadGzConcurrent(path, ch)
		} else {
			fasta.ReadConcurrent(path, ch)
		}
		done <- nil
	default:
		return nil, fmt.Errorf("bad src %q", args[0])
	}
	rng := rand.New(rand.NewSource(seed))
	// stall > 1000: additionally ONE long stall of (stall - 1000) ms before the second receive — a slow
	// consumer (a producer that gives up on a send after a timeout would lose a record here)
	longStall := 0
	if stall > 1000 {
		longStall = stall - 1000
		stall = 300
	}
	receives := 0
	pause := func() {
		receives++
		if receives == 2 && longStall > 0 {
			time.Sleep(time.Duration(longStall) * time.Millisecond)
		}
		if rng.Intn(1000) >= stall {
			return
		}
		switch rng.Intn(4) {
		case 0:
			runtime.Gosched()
		case 1:
			time.Sleep(time.Duration(1+rng.Intn(300)) * time.Microsecond)
		case 2:
			x := 0
			for i := 0; i < 1+rng.Intn(20000); i++ {
				x += i
			}
			_ = x
		case 3:
			time.Sleep(time.Duration(1+rng.Intn(3)) * time.Millisecond)
		}
	}
	var got []fasta.Fasta
	deadline := time.After(ioDeadline(20000) + time.Duration(longStall)*time.Millisecond)
	doneCh, producerDone := done, false
recvLoop:
	for {
		pause()
		select {
		case f, ok := <-ch:
			if !ok {
				break recvLoop
			}
			got = append(got, f)
			if gzHistory != nil && len(got) == 3 {
				if err := gzHistory(); err != nil {
					return nil, err
				}
				gzHistory = nil
			}
		case p := <-doneCh:
			// the producer goroutine ended (file / gz sources: nothing to watch): a panic is reported at once
			doneCh, producerDone = nil, true
			if p != nil {
				return nil, fmt.Errorf("producer goroutine panicked (%d records received): %v", len(got), p)
			}
		case <-deadline:
			ioBlocked(tmpFiles, "channel neither fed nor closed within the deadline", "received="+strconv.Itoa(len(got)))
		}
	}
	if gzHistory != nil { // fewer than three records: the second file is read after the first
		if err := gzHistory(); err != nil {
			return nil, err
		}
	}
	select {
	case rs := <-otherGot:
		if !c13SameRecs(rs, c13OtherWant) {
			return nil, fmt.Errorf("a ParseConcurrent running at the same time on another text delivered wrong records (%d records)", len(rs))
		}
	case <-time.After(ioDeadline(20000)):
		ioBlocked(tmpFiles, "a second ParseConcurrent running at the same time did not finish", "received="+strconv.Itoa(len(got)))
	}
	closedOnce := true
	select {
	case _, ok := <-ch:
		if ok {
			closedOnce = false // a value after "closed"
		}
	case <-time.After(2 * time.Second):
		closedOnce = false
	}
	if !producerDone {
		select {
		case p := <-done:
			if p != nil {
				closedOnce = false // the producer panicked: send on / close of a closed channel
			}
		case <-time.After(5 * time.Second):
			closedOnce = false // the producer did not return after closing
		}
	}
	flag := "0"
	if closedOnce {
		flag = "1"
	}
	return append([]string{flag}, c13Recs(got)...), nil
}
