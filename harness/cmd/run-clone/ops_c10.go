package main

// C10: CutWithEnzyme / CutWithEnzymeByName on one or more sequences (all rotations of a
// plasmid travel in one request so that the judge decides the whole relation).
//
//	cut name site rcsite skip oh directional circular seq…
//	→ ok (direct byname)…   each `ok|fwd,seq,rev;…` | panic | err | -

import (
	"regexp"
	"strconv"
	"strings"

	"verifharness/runner"

	"github.com/TimothyStiles/poly/clone"
)

func c10Encode(frs []clone.Fragment) string {
	parts := make([]string, len(frs))
	for i, f := range frs {
		parts[i] = f.ForwardOverhang + "," + f.Sequence + "," + f.ReverseOverhang
	}
	return "ok|" + strings.Join(parts, ";")
}

func c10Direct(part clone.Part, directional bool, enzyme clone.Enzyme) (res string) {
	defer func() {
		if p := recover(); p != nil {
			res = "panic"
		}
	}()
	return c10Encode(clone.CutWithEnzyme(part, directional, enzyme))
}

func c10ByName(part clone.Part, directional bool, name string) (res string) {
	defer func() {
		if p := recover(); p != nil {
			res = "panic"
		}
	}()
	frs, err := clone.CutWithEnzymeByName(part, directional, name)
	if err != nil {
		return "err"
	}
	return c10Encode(frs)
}

func init() {
	runner.Register("cut", func(a []string) ([]string, error) {
		name, site, rcsite := a[0], a[1], a[2]
		skip, _ := strconv.Atoi(a[3])
		oh, _ := strconv.Atoi(a[4])
		directional, circular := a[5] == "true", a[6] == "true"
		enzyme := clone.Enzyme{
			Name:            name,
			RegexpFor:       regexp.MustCompile(regexp.QuoteMeta(site)),
			RegexpRev:       regexp.MustCompile(regexp.QuoteMeta(rcsite)),
			Skip:            skip,
			OverhangLen:     oh,
			RecognitionSite: site,
		}
		var out []string
		for _, s := range a[7:] {
			part := clone.Part{Sequence: s, Circular: circular}
			out = append(out, c10Direct(part, directional, enzyme))
			if name == "" {
				out = append(out, "-")
			} else {
				out = append(out, c10ByName(part, directional, name))
			}
		}
		return out, nil
	})
}

// cuthist name site rcsite skip oh seq steps: the SAME stored string through a history of calls in one
// process; steps = "cd,ld,cn,…" (c/l = circular/linear, d/n = directional/non-directional);
// reply = one (direct, "-") pair per call.
func init() {
	runner.Register("cuthist", func(a []string) ([]string, error) {
		name, site, rcsite := a[0], a[1], a[2]
		skip, _ := strconv.Atoi(a[3])
		oh, _ := strconv.Atoi(a[4])
		enzyme := clone.Enzyme{
			Name:            name,
			RegexpFor:       regexp.MustCompile(regexp.QuoteMeta(site)),
			RegexpRev:       regexp.MustCompile(regexp.QuoteMeta(rcsite)),
			Skip:            skip,
			OverhangLen:     oh,
			RecognitionSite: site,
		}
		var out []string
		for _, st := range strings.Split(a[6], ",") {
			if len(st) != 2 {
				continue
			}
			out = append(out, c10Direct(clone.Part{Sequence: a[5], Circular: st[0] == 'c'}, st[1] == 'd', enzyme), "-")
		}
		return out, nil
	})
}
