package main

// C09: CircularLigate / GoldenGate, run on a pool in four input orders.

import (
	"errors"
	"fmt"
	"os"
	"strconv"
	"strings"
	"time"

	"verifharness/runner"

	"github.com/TimothyStiles/poly/clone"
)

// c09RaceLogSize is the size of the race detector's report file seen so far (race builds only).
var c09RaceLogSize int64

// c09RaceSeen reports whether the race detector has written a new report since the last call.
// The check runs the race binary with GORACE=log_path=<prefix>; the detector appends its
// reports to <prefix>.<pid> at the moment a race is detected and lets the program continue.
func c09RaceSeen() string {
	if !c09RaceBuild {
		return "norace"
	}
	prefix := ""
	for _, kv := range strings.Fields(os.Getenv("GORACE")) {
		if strings.HasPrefix(kv, "log_path=") {
			prefix = strings.TrimPrefix(kv, "log_path=")
		}
	}
	if prefix == "" {
		return "norace"
	}
	st, err := os.Stat(prefix + "." + strconv.Itoa(os.Getpid()))
	if err != nil {
		return "norace"
	}
	if st.Size() > c09RaceLogSize {
		c09RaceLogSize = st.Size()
		return "race"
	}
	return "norace"
}

// Circuit breaker for non-termination.  A call that does not return costs the whole per-case timeout (the runner
// prints `timeout` and exits; the check restarts the binary).  If CircularLigate regresses into non-termination, hundreds
// of generated pools hang and the check would run for hours.  Shortly before the runner's deadline a watchdog records the
// hang in a file shared by all harness processes of this check run (named after the parent process); once three hangs are
// on record the remaining requests are answered `ok not-run` without calling the code (judged `skip`, not `pass`): the
// three timeouts already are failing inputs.
const c09MaxHangs = 3

func c09HangFile() string {
	return fmt.Sprintf("%s/verif-c09-hangs-%d", os.TempDir(), os.Getppid())
}

func c09Hangs() int {
	st, err := os.Stat(c09HangFile())
	if err != nil || time.Since(st.ModTime()) > 6*time.Hour {
		return 0
	}
	return int(st.Size())
}

// c09Guard runs f under the watchdog; it returns false when the breaker is open (f was not run).
func c09Guard(f func()) bool {
	if c09Hangs() >= c09MaxHangs {
		return false
	}
	timeout := 20 * time.Second
	if v := os.Getenv("VERIF_CASE_TIMEOUT_MS"); v != "" {
		if ms, err := strconv.Atoi(v); err == nil {
			timeout = time.Duration(ms) * time.Millisecond
		}
	}
	done := make(chan struct{})
	go func() {
		select {
		case <-done:
		case <-time.After(timeout - timeout/10):
			if fh, err := os.OpenFile(c09HangFile(), os.O_APPEND|os.O_CREATE|os.O_WRONLY, 0o644); err == nil {
				fh.WriteString("x")
				fh.Close()
			}
		}
	}()
	f()
	close(done)
	return true
}

func c09ParsePool(s string) ([]clone.Fragment, error) {
	var pool []clone.Fragment
	if s == "" {
		return pool, nil
	}
	for _, item := range strings.Split(s, ";") {
		f := strings.Split(item, ",")
		if len(f) != 3 {
			return nil, errors.New("bad fragment")
		}
		pool = append(pool, clone.Fragment{Sequence: f[0], ForwardOverhang: f[1], ReverseOverhang: f[2]})
	}
	return pool, nil
}

func c09ParseParts(s string) ([]clone.Part, error) {
	var parts []clone.Part
	if s == "" {
		return parts, nil
	}
	for _, item := range strings.Split(s, ";") {
		f := strings.Split(item, ":")
		if len(f) != 2 {
			return nil, errors.New("bad part")
		}
		parts = append(parts, clone.Part{Sequence: f[0], Circular: f[1] == "C"})
	}
	return parts, nil
}

// c09Run renders the returned parts: count, then sequence and Circular flag of every part.
func c09Run(parts []clone.Part) string {
	items := make([]string, len(parts))
	for i, p := range parts {
		flag := "L"
		if p.Circular {
			flag = "C"
		}
		items[i] = p.Sequence + ":" + flag
	}
	return strconv.Itoa(len(parts)) + ":" + strings.Join(items, ",")
}

func init() {
	runner.Register("ligate", func(a []string) ([]string, error) {
		out := []string{""}
		for _, text := range a {
			pool, err := c09ParsePool(text)
			if err != nil {
				return nil, err
			}
			var constructs []clone.Part
			if !c09Guard(func() { constructs = clone.CircularLigate(pool) }) {
				return []string{"not-run"}, nil
			}
			out = append(out, c09Run(constructs))
		}
		out[0] = c09RaceSeen()
		return out, nil
	})
	runner.Register("goldengate", func(a []string) ([]string, error) {
		out := []string{""}
		enzyme := a[0]
		for _, text := range a[1:] {
			parts, err := c09ParseParts(text)
			if err != nil {
				return nil, err
			}
			var constructs []clone.Part
			if !c09Guard(func() { constructs, err = clone.GoldenGate(parts, enzyme) }) {
				return []string{"not-run"}, nil
			}
			if err != nil {
				return nil, err
			}
			out = append(out, c09Run(constructs))
		}
		// the fragments GoldenGate cuts the parts into (first input order)
		parts, _ := c09ParseParts(a[1])
		var cuts []string
		for _, part := range parts {
			fragments, err := clone.CutWithEnzymeByName(part, true, enzyme)
			if err != nil {
				return nil, err
			}
			var items []string
			for _, f := range fragments {
				items = append(items, f.Sequence+","+f.ForwardOverhang+","+f.ReverseOverhang)
			}
			cuts = append(cuts, strings.Join(items, ";"))
		}
		out = append(out, strings.Join(cuts, "|"))
		out[0] = c09RaceSeen()
		return out, nil
	})
}
