package main

// C09: CircularLigate / GoldenGate, run on a pool in four input orders.

import (
	"errors"
	"fmt"
	"os"
	"path/filepath"
	"strconv"
	"strings"
	"time"

	"verifharness/runner"

	"github.com/TimothyStiles/poly/clone"
)

// c09RaceLogSize is the size of the race detector's report file seen so far (race builds only).
var c09RaceLogSize int64

// c09RaceSeen reports whether the race detector has written a new report since the last call.
// The check runs the race binary with GORACE=log_path=<prefix>; the detector appends its
// reports to <prefix>.<pid> at the moment a race is detected and lets the program continue.
func c09RaceSeen() string {
	if !c09RaceBuild {
		return "norace"
	}
	prefix := ""
	for _, kv := range strings.Fields(os.Getenv("GORACE")) {
		if strings.HasPrefix(kv, "log_path=") {
			prefix = strings.TrimPrefix(kv, "log_path=")
		}
	}
	if prefix == "" {
		return "norace"
	}
	st, err := os.Stat(prefix + "." + strconv.Itoa(os.Getpid()))
	if err != nil {
		return "norace"
	}
	if st.Size() > c09RaceLogSize {
		c09RaceLogSize = st.Size()
		return "race"
	}
	return "norace"
}

// Circuit breaker for non-termination.  A call that does not return costs the whole per-request timeout (the runner
// prints `timeout` and exits; the check restarts the binary).  If CircularLigate regresses into non-termination, hundreds
// of generated pools hang and the check would run for hours.  Shortly before the runner's deadline a watchdog records the
// hung request in a file of THIS check run; once three are on record the remaining requests are answered
// `ok not-run <the three hung requests>` without calling the code.  Safeguards:
//   - the file lives in <build>/C09 (next to the binaries, never under /tmp) and is named after the parent process AND
//     that process's start time from /proc, so a recycled pid cannot inherit it; files whose process is gone are removed
//     whenever a harness process starts, and gen/c09.py removes the run's own file when the run begins and ends;
//   - only requests the driver marked as lying inside the property's quantifier are recorded: each of them is judged
//     `timeout` = FAIL in the same run, so an open breaker always comes with at least three failing inputs; hangs on
//     out-of-quantifier probes never open it;
//   - the driver excuses a `not-run` reply (skip) only if it names three in-quantifier hung requests, otherwise FAIL.
const c09MaxHangs = 3

func c09StartTime(pid int) string {
	data, err := os.ReadFile(fmt.Sprintf("/proc/%d/stat", pid))
	if err != nil {
		return ""
	}
	text := string(data)
	i := strings.LastIndex(text, ")")
	if i < 0 {
		return ""
	}
	f := strings.Fields(text[i+1:])
	if len(f) < 20 {
		return ""
	}
	return f[19]
}

func c09StateDir() string {
	exe, err := os.Executable()
	if err != nil {
		return ""
	}
	dir := filepath.Dir(exe)
	if filepath.Base(dir) == "race" {
		dir = filepath.Dir(dir)
	}
	return filepath.Join(filepath.Dir(dir), "C09")
}

func c09HangFile() string {
	st := c09StartTime(os.Getppid())
	dir := c09StateDir()
	if st == "" || dir == "" {
		return ""
	}
	// one breaker per pipeline run: the main run, every GOMAXPROCS run and every race run start with a fresh one, so that
	// hangs in the main run do not un-run the schedule runs (and vice versa)
	run := "main"
	if g := os.Getenv("GOMAXPROCS"); g != "" {
		run = "g" + g
	}
	if c09RaceBuild {
		run += "race"
	}
	return c09HangFileFor(run)
}

func c09HangFileFor(run string) string {
	st := c09StartTime(os.Getppid())
	dir := c09StateDir()
	if st == "" || dir == "" {
		return ""
	}
	return filepath.Join(dir, fmt.Sprintf("hangs-%d-%s-%s", os.Getppid(), st, run))
}

func c09HungRequests() []string {
	// A schedule run (GOMAXPROCS-n / race) has its own breaker, so hangs of one run do not un-run another — with one
	// exception: when the MAIN run's breaker is open (three in-quantifier calls did not return there: a non-termination
	// regression, already reported with failing inputs) the schedule runs are not executed either.  At GOMAXPROCS=1 a call
	// that spawns goroutines without end starves the timers, so neither this watchdog nor the runner's deadline fires and
	// the run could not be ended at all.
	if main := c09ReadHangs(c09HangFileFor("main")); len(main) >= c09MaxHangs {
		return main
	}
	return c09ReadHangs(c09HangFile())
}

func c09ReadHangs(name string) []string {
	if name == "" {
		return nil
	}
	data, err := os.ReadFile(name)
	if err != nil {
		return nil
	}
	var out []string
	for _, l := range strings.Split(string(data), "\n") {
		if l != "" {
			out = append(out, l)
		}
	}
	return out
}

func init() {
	// remove the files of check runs whose process no longer exists
	dir := c09StateDir()
	if dir == "" {
		return
	}
	names, _ := filepath.Glob(filepath.Join(dir, "hangs-*"))
	for _, n := range names {
		parts := strings.Split(filepath.Base(n), "-")
		if len(parts) != 4 {
			os.Remove(n)
			continue
		}
		pid, err := strconv.Atoi(parts[1])
		if err != nil || c09StartTime(pid) != parts[2] {
			os.Remove(n)
		}
	}
}

// c09Guard runs f under the watchdog; it returns the hung requests on record when the breaker is open (f was not run).
func c09Guard(inDomain bool, request string, f func()) []string {
	if hung := c09HungRequests(); len(hung) >= c09MaxHangs {
		return hung[:c09MaxHangs]
	}
	timeout := 20 * time.Second
	if v := os.Getenv("VERIF_CASE_TIMEOUT_MS"); v != "" {
		if ms, err := strconv.Atoi(v); err == nil {
			timeout = time.Duration(ms) * time.Millisecond
		}
	}
	done := make(chan struct{})
	go func() {
		select {
		case <-done:
		case <-time.After(timeout - timeout/10):
			name := c09HangFile()
			if !inDomain || name == "" {
				return
			}
			os.MkdirAll(filepath.Dir(name), 0o755)
			if fh, err := os.OpenFile(name, os.O_APPEND|os.O_CREATE|os.O_WRONLY, 0o644); err == nil {
				fh.WriteString(request + "\n")
				fh.Close()
			}
		}
	}()
	f()
	close(done)
	return nil
}

func c09ParsePool(s string) ([]clone.Fragment, error) {
	var pool []clone.Fragment
	if s == "" {
		return pool, nil
	}
	for _, item := range strings.Split(s, ";") {
		f := strings.Split(item, ",")
		if len(f) != 3 {
			return nil, errors.New("bad fragment")
		}
		pool = append(pool, clone.Fragment{Sequence: f[0], ForwardOverhang: f[1], ReverseOverhang: f[2]})
	}
	return pool, nil
}

func c09ParseParts(s string) ([]clone.Part, error) {
	var parts []clone.Part
	if s == "" {
		return parts, nil
	}
	for _, item := range strings.Split(s, ";") {
		f := strings.Split(item, ":")
		if len(f) != 2 {
			return nil, errors.New("bad part")
		}
		parts = append(parts, clone.Part{Sequence: f[0], Circular: f[1] == "C"})
	}
	return parts, nil
}

// c09Run renders the returned parts: count, then sequence and Circular flag of every part.
func c09Run(parts []clone.Part) string {
	items := make([]string, len(parts))
	for i, p := range parts {
		flag := "L"
		if p.Circular {
			flag = "C"
		}
		items[i] = p.Sequence + ":" + flag
	}
	return strconv.Itoa(len(parts)) + ":" + strings.Join(items, ",")
}

func init() {
	runner.Register("ligate", func(a []string) ([]string, error) {
		out := []string{""}
		inDomain := a[0] == "true"
		for _, text := range a[1:] {
			pool, err := c09ParsePool(text)
			if err != nil {
				return nil, err
			}
			var constructs []clone.Part
			if hung := c09Guard(inDomain, "L|"+text, func() { constructs = clone.CircularLigate(pool) }); hung != nil {
				return append([]string{"not-run"}, hung...), nil
			}
			out = append(out, c09Run(constructs))
		}
		out[0] = c09RaceSeen()
		return out, nil
	})
	runner.Register("goldengate", func(a []string) ([]string, error) {
		out := []string{""}
		inDomain := a[0] == "true"
		enzyme := a[1]
		for _, text := range a[2:] {
			parts, err := c09ParseParts(text)
			if err != nil {
				return nil, err
			}
			var constructs []clone.Part
			if hung := c09Guard(inDomain, "G|"+enzyme+"|"+text, func() { constructs, err = clone.GoldenGate(parts, enzyme) }); hung != nil {
				return append([]string{"not-run"}, hung...), nil
			}
			if err != nil {
				return nil, err
			}
			out = append(out, c09Run(constructs))
		}
		cut, err := c09Cuts(a[2], enzyme)
		if err != nil {
			return nil, err
		}
		out = append(out, cut)
		out[0] = c09RaceSeen()
		return out, nil
	})
	// goldengate2 dom enzyme twinparts parts0 parts1 parts2 parts3: a HISTORY inside one process — first the twin list (one
	// part in its other topology, same text), then the four orders of the list proper; both cuts are reported
	runner.Register("goldengate2", func(a []string) ([]string, error) {
		out := []string{""}
		inDomain := a[0] == "true"
		enzyme := a[1]
		for _, text := range a[2:] {
			parts, err := c09ParseParts(text)
			if err != nil {
				return nil, err
			}
			var constructs []clone.Part
			if hung := c09Guard(inDomain, "G|"+enzyme+"|"+text, func() { constructs, err = clone.GoldenGate(parts, enzyme) }); hung != nil {
				return append([]string{"not-run"}, hung...), nil
			}
			if err != nil {
				return nil, err
			}
			out = append(out, c09Run(constructs))
		}
		for _, text := range []string{a[3], a[2]} {
			cut, err := c09Cuts(text, enzyme)
			if err != nil {
				return nil, err
			}
			out = append(out, cut)
		}
		out[0] = c09RaceSeen()
		return out, nil
	})
}

// c09Cuts: the fragments CutWithEnzymeByName(part, true, enzyme) releases, per part: `seq,fwd,rev;…|…`
func c09Cuts(text, enzyme string) (string, error) {
	parts, _ := c09ParseParts(text)
	var cuts []string
	for _, part := range parts {
		fragments, err := clone.CutWithEnzymeByName(part, true, enzyme)
		if err != nil {
			return "", err
		}
		var items []string
		for _, f := range fragments {
			items = append(items, f.Sequence+","+f.ForwardOverhang+","+f.ReverseOverhang)
		}
		cuts = append(cuts, strings.Join(items, ";"))
	}
	return strings.Join(cuts, "|"), nil
}
