package main

// C09: CircularLigate / GoldenGate, run on a pool in four input orders.

import (
	"errors"
	"os"
	"strconv"
	"strings"

	"verifharness/runner"

	"github.com/TimothyStiles/poly/clone"
)

// c09RaceLogSize is the size of the race detector's report file seen so far (race builds only).
var c09RaceLogSize int64

// c09RaceSeen reports whether the race detector has written a new report since the last call.
// The check runs the race binary with GORACE=log_path=<prefix>; the detector appends its
// reports to <prefix>.<pid> at the moment a race is detected and lets the program continue.
func c09RaceSeen() string {
	if !c09RaceBuild {
		return "norace"
	}
	prefix := ""
	for _, kv := range strings.Fields(os.Getenv("GORACE")) {
		if strings.HasPrefix(kv, "log_path=") {
			prefix = strings.TrimPrefix(kv, "log_path=")
		}
	}
	if prefix == "" {
		return "norace"
	}
	st, err := os.Stat(prefix + "." + strconv.Itoa(os.Getpid()))
	if err != nil {
		return "norace"
	}
	if st.Size() > c09RaceLogSize {
		c09RaceLogSize = st.Size()
		return "race"
	}
	return "norace"
}

func c09ParsePool(s string) ([]clone.Fragment, error) {
	var pool []clone.Fragment
	if s == "" {
		return pool, nil
	}
	for _, item := range strings.Split(s, ";") {
		f := strings.Split(item, ",")
		if len(f) != 3 {
			return nil, errors.New("bad fragment")
		}
		pool = append(pool, clone.Fragment{Sequence: f[0], ForwardOverhang: f[1], ReverseOverhang: f[2]})
	}
	return pool, nil
}

func c09ParseParts(s string) ([]clone.Part, error) {
	var parts []clone.Part
	if s == "" {
		return parts, nil
	}
	for _, item := range strings.Split(s, ";") {
		f := strings.Split(item, ":")
		if len(f) != 2 {
			return nil, errors.New("bad part")
		}
		parts = append(parts, clone.Part{Sequence: f[0], Circular: f[1] == "C"})
	}
	return parts, nil
}

func c09Run(parts []clone.Part) string {
	seqs := make([]string, len(parts))
	for i, p := range parts {
		seqs[i] = p.Sequence
	}
	return strconv.Itoa(len(parts)) + ":" + strings.Join(seqs, ",")
}

func init() {
	runner.Register("ligate", func(a []string) ([]string, error) {
		out := []string{""}
		for _, text := range a {
			pool, err := c09ParsePool(text)
			if err != nil {
				return nil, err
			}
			out = append(out, c09Run(clone.CircularLigate(pool)))
		}
		out[0] = c09RaceSeen()
		return out, nil
	})
	runner.Register("goldengate", func(a []string) ([]string, error) {
		out := []string{""}
		enzyme := a[0]
		for _, text := range a[1:] {
			parts, err := c09ParseParts(text)
			if err != nil {
				return nil, err
			}
			constructs, err := clone.GoldenGate(parts, enzyme)
			if err != nil {
				return nil, err
			}
			out = append(out, c09Run(constructs))
		}
		// the fragments GoldenGate cuts the parts into (first input order)
		parts, _ := c09ParseParts(a[1])
		var cuts []string
		for _, part := range parts {
			fragments, err := clone.CutWithEnzymeByName(part, true, enzyme)
			if err != nil {
				return nil, err
			}
			var items []string
			for _, f := range fragments {
				items = append(items, f.Sequence+","+f.ForwardOverhang+","+f.ReverseOverhang)
			}
			cuts = append(cuts, strings.Join(items, ";"))
		}
		out = append(out, strings.Join(cuts, "|"))
		out[0] = c09RaceSeen()
		return out, nil
	})
}
