//go:build !race

package main

const c09RaceBuild = false
