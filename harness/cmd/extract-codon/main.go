// Command extract-codon: regenerates Gen/CodonTables.lean.
package main

import "verifharness/extractor"

func main() { extractor.Main() }
