// Command extract-seq: regenerates Gen/Complement.lean and Gen/Iupac.lean.
package main

import "verifharness/extractor"

func main() { extractor.Main() }
