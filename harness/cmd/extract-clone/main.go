// Command extract-clone: regenerates Gen/CloneFacts.lean — the coarse, syntactic facts about the concurrency structure of
// clone/clone.go that the goroutine system of lean/PolyVerif/Model/Ligate.lean (Sys / Step) rests on.
package main

import "verifharness/extractor"

func main() { extractor.Main() }
