package main

// Unlike the other extractors this one reads SOURCE ($VERIF_REPO/clone/clone.go, default /repo) with go/parser + go/ast:
// the schedule structure of CircularLigate cannot be observed through the API.  The facts cover the functions reachable
// from clone.CircularLigate (by name, within the file) and are deliberately coarse — sets,
// not counts, positions or names — so that a restructuring which keeps the same synchronisation vocabulary (helpers,
// `range c` instead of `v, more := <-c`, a buffered channel, one goroutine per seed instead of one per partial construct,
// directional channel types) leaves them unchanged, while a NEW mechanism (a semaphore channel, a mutex, sync.Map,
// select, atomics, a second collector) changes them:
//
//   clonePrimitives            the synchronisation vocabulary of the file: "go", "close", "select", "chan:<element type>"
//                              for every make(chan T …) (capacity ignored), "sync.<T>" for every sync type named,
//                              "import:sync/atomic" / "import:context" / "import:golang.org/x/sync/…"
//   cloneSyncCalls             which of the method names Add Done Wait Lock Unlock RLock RUnlock Load Store LoadOrStore
//                              Do Go are called on anything
//   cloneStringChanCollectors  in how many functions a `chan string` (the construct channel) is received from
//   cloneStringChanSenders     whether anything is sent on a `chan string`
//
// and four ORDER facts (booleans) the Step system's invariants rest on; each is about statements of one statement list:
//   cloneAddBeforeGo           every `go` that starts a worker (a function or literal whose body calls Done) is immediately
//                              preceded, in the same statement list, by a call `….Add(…)`
//   cloneDeferDoneFirst        the first statement of every such worker body is `defer ….Done()`
//   cloneCloseAfterWait        every `close(ch)` of a `chan string` has, earlier in its statement list, a statement that waits
//                              (calls `….Wait()` itself or calls a function of the file that does, transitively); a deferred
//                              close counts when a waiting statement follows it
//   cloneSendsUnconditional    (HARD obligation, Props/C09.lean) no send on a `chan string` is the communication of a `select`
//                              case: every construct is handed over by a plain blocking send — no `default`, no timer, no
//                              alternative that lets a construct be dropped
//   cloneCollectorBeforeWait   every `go` that starts a collector (a function receiving from a `chan string`) has a waiting
//                              statement later in its statement list and none before it

import (
	"fmt"
	"go/ast"
	"go/parser"
	"go/printer"
	"go/token"
	"os"
	"path/filepath"
	"sort"
	"strings"

	"verifharness/extractor"
)

func typeText(fset *token.FileSet, e ast.Expr) string {
	var b strings.Builder
	printer.Fprint(&b, fset, e)
	return b.String()
}

func cloneFacts() (string, error) {
	repo := os.Getenv("VERIF_REPO")
	if repo == "" {
		repo = "/repo"
	}
	fset := token.NewFileSet()
	file, err := parser.ParseFile(fset, filepath.Join(repo, "clone", "clone.go"), nil, 0)
	if err != nil {
		return "", err
	}
	prims := map[string]bool{}
	calls := map[string]bool{}
	watched := map[string]bool{"Add": true, "Done": true, "Wait": true, "Lock": true, "Unlock": true, "RLock": true,
		"RUnlock": true, "Load": true, "Store": true, "LoadOrStore": true, "Do": true, "Go": true}
	for _, imp := range file.Imports {
		p := strings.Trim(imp.Path.Value, "\"")
		if p == "sync/atomic" || p == "context" || strings.HasPrefix(p, "golang.org/x/sync") {
			prims["import:"+p] = true
		}
	}
	collectors := 0
	senders := false
	// scope: the functions reachable from the exported entry point CircularLigate (calls, `go` statements, method calls and
	// function values, matched by name within the file) — the digest and the enzyme table are not part of the schedule
	funcs := map[string][]*ast.FuncDecl{}
	for _, decl := range file.Decls {
		if fn, ok := decl.(*ast.FuncDecl); ok && fn.Body != nil {
			funcs[fn.Name.Name] = append(funcs[fn.Name.Name], fn)
		}
	}
	reach := map[string]bool{}
	var visit func(name string)
	visit = func(name string) {
		if reach[name] || funcs[name] == nil {
			return
		}
		reach[name] = true
		for _, fn := range funcs[name] {
			ast.Inspect(fn.Body, func(n ast.Node) bool {
				if id, ok := n.(*ast.Ident); ok {
					visit(id.Name)
				}
				return true
			})
		}
	}
	visit("CircularLigate")
	if !reach["CircularLigate"] {
		return "", fmt.Errorf("clone.CircularLigate not found")
	}
	// package-level variables (a semaphore channel, a mutex, a cache …): their mechanisms count where they are referenced
	globals := map[string][]string{}
	for _, decl := range file.Decls {
		gd, ok := decl.(*ast.GenDecl)
		if !ok || gd.Tok != token.VAR {
			continue
		}
		for _, spec := range gd.Specs {
			vs := spec.(*ast.ValueSpec)
			var found []string
			ast.Inspect(vs, func(n ast.Node) bool {
				switch x := n.(type) {
				case *ast.SelectorExpr:
					if id, ok := x.X.(*ast.Ident); ok && id.Name == "sync" {
						found = append(found, "sync."+x.Sel.Name)
					}
				case *ast.ChanType:
					found = append(found, "chan:"+typeText(fset, x.Value))
				}
				return true
			})
			for _, nm := range vs.Names {
				globals[nm.Name] = found
			}
		}
	}
	for _, decl := range file.Decls {
		fn, ok := decl.(*ast.FuncDecl)
		if !ok || fn.Body == nil || !reach[fn.Name.Name] {
			continue
		}
		ast.Inspect(fn, func(n ast.Node) bool {
			switch x := n.(type) {
			case *ast.SelectorExpr:
				if id, ok := x.X.(*ast.Ident); ok && id.Name == "sync" {
					prims["sync."+x.Sel.Name] = true
				}
			case *ast.Ident:
				for _, g := range globals[x.Name] {
					prims[g] = true
				}
			}
			return true
		})
		// element types of the channels this function can name: parameters, make(chan T), struct fields are ignored
		elem := map[string]string{}
		noteChan := func(name string, t ast.Expr) {
			if ct, ok := t.(*ast.ChanType); ok {
				elem[name] = typeText(fset, ct.Value)
			}
		}
		if fn.Type.Params != nil {
			for _, f := range fn.Type.Params.List {
				for _, nm := range f.Names {
					noteChan(nm.Name, f.Type)
				}
			}
		}
		ast.Inspect(fn, func(n ast.Node) bool {
			switch x := n.(type) {
			case *ast.FuncLit:
				for _, f := range x.Type.Params.List {
					for _, nm := range f.Names {
						noteChan(nm.Name, f.Type)
					}
				}
			case *ast.AssignStmt:
				for i, rhs := range x.Rhs {
					if call, ok := rhs.(*ast.CallExpr); ok {
						if id, ok := call.Fun.(*ast.Ident); ok && id.Name == "make" && len(call.Args) > 0 {
							if ct, ok := call.Args[0].(*ast.ChanType); ok {
								prims["chan:"+typeText(fset, ct.Value)] = true
								if i < len(x.Lhs) {
									if l, ok := x.Lhs[i].(*ast.Ident); ok {
										elem[l.Name] = typeText(fset, ct.Value)
									}
								}
							}
						}
					}
				}
			}
			return true
		})
		chanOf := func(e ast.Expr) string {
			switch x := e.(type) {
			case *ast.Ident:
				return elem[x.Name]
			case *ast.SelectorExpr: // a channel kept in a struct field: resolved by the field's name only
				return elem[x.Sel.Name]
			}
			return ""
		}
		// struct-field channels: take the element type from any struct type of the file with a field of that name
		for _, d := range file.Decls {
			ast.Inspect(d, func(n ast.Node) bool {
				if st, ok := n.(*ast.StructType); ok {
					for _, f := range st.Fields.List {
						for _, nm := range f.Names {
							if _, seen := elem[nm.Name]; !seen {
								noteChan(nm.Name, f.Type)
							}
						}
					}
				}
				return true
			})
		}
		receives := false
		ast.Inspect(fn, func(n ast.Node) bool {
			switch x := n.(type) {
			case *ast.GoStmt:
				prims["go"] = true
			case *ast.SelectStmt:
				prims["select"] = true
			case *ast.CallExpr:
				if id, ok := x.Fun.(*ast.Ident); ok && id.Name == "close" {
					prims["close"] = true
				}
				if sel, ok := x.Fun.(*ast.SelectorExpr); ok && watched[sel.Sel.Name] {
					calls[sel.Sel.Name] = true
				}
			case *ast.SendStmt:
				if chanOf(x.Chan) == "string" {
					senders = true
				}
			case *ast.UnaryExpr:
				if x.Op == token.ARROW && chanOf(x.X) == "string" {
					receives = true
				}
			case *ast.RangeStmt:
				if chanOf(x.X) == "string" {
					receives = true
				}
			}
			return true
		})
		if receives {
			collectors++
		}
	}
	// ---- order facts
	hasCall := func(n ast.Node, name string) bool {
		found := false
		ast.Inspect(n, func(m ast.Node) bool {
			if call, ok := m.(*ast.CallExpr); ok {
				if sel, ok := call.Fun.(*ast.SelectorExpr); ok && sel.Sel.Name == name {
					found = true
				}
			}
			return true
		})
		return found
	}
	waitsMemo := map[string]int{} // 0 unknown, 1 in progress / no, 2 yes
	var funcWaits func(name string) bool
	var nodeWaits func(n ast.Node) bool
	nodeWaits = func(n ast.Node) bool {
		if hasCall(n, "Wait") {
			return true
		}
		found := false
		ast.Inspect(n, func(m ast.Node) bool {
			if call, ok := m.(*ast.CallExpr); ok {
				if id, ok := call.Fun.(*ast.Ident); ok && funcWaits(id.Name) {
					found = true
				}
			}
			return true
		})
		return found
	}
	funcWaits = func(name string) bool {
		if funcs[name] == nil {
			return false
		}
		if waitsMemo[name] != 0 {
			return waitsMemo[name] == 2
		}
		waitsMemo[name] = 1
		for _, fn := range funcs[name] {
			if nodeWaits(fn.Body) {
				waitsMemo[name] = 2
				return true
			}
		}
		return false
	}
	// element types of channels by name, file-wide (parameters, make, struct fields): good enough to recognise `chan string`
	chanElem := map[string]string{}
	ast.Inspect(file, func(n ast.Node) bool {
		switch x := n.(type) {
		case *ast.Field:
			if ct, ok := x.Type.(*ast.ChanType); ok {
				for _, nm := range x.Names {
					chanElem[nm.Name] = typeText(fset, ct.Value)
				}
			}
		case *ast.AssignStmt:
			for i, rhs := range x.Rhs {
				if call, ok := rhs.(*ast.CallExpr); ok {
					if id, ok := call.Fun.(*ast.Ident); ok && id.Name == "make" && len(call.Args) > 0 {
						if ct, ok := call.Args[0].(*ast.ChanType); ok && i < len(x.Lhs) {
							if l, ok := x.Lhs[i].(*ast.Ident); ok {
								chanElem[l.Name] = typeText(fset, ct.Value)
							}
						}
					}
				}
			}
		}
		return true
	})
	isStringChan := func(e ast.Expr) bool {
		switch x := e.(type) {
		case *ast.Ident:
			return chanElem[x.Name] == "string"
		case *ast.SelectorExpr:
			return chanElem[x.Sel.Name] == "string"
		}
		return false
	}
	knownChan := func(e ast.Expr) bool {
		switch x := e.(type) {
		case *ast.Ident:
			return chanElem[x.Name] != ""
		case *ast.SelectorExpr:
			return chanElem[x.Sel.Name] != ""
		}
		return false
	}
	receivesString := func(body ast.Node) bool {
		found := false
		ast.Inspect(body, func(m ast.Node) bool {
			switch x := m.(type) {
			case *ast.UnaryExpr:
				if x.Op == token.ARROW && isStringChan(x.X) {
					found = true
				}
			case *ast.RangeStmt:
				if isStringChan(x.X) {
					found = true
				}
			}
			return true
		})
		return found
	}
	// the bodies a `go` statement starts: a literal, or the functions of that name in the file
	targets := func(g *ast.GoStmt) []*ast.BlockStmt {
		switch f := g.Call.Fun.(type) {
		case *ast.FuncLit:
			return []*ast.BlockStmt{f.Body}
		case *ast.Ident:
			var out []*ast.BlockStmt
			for _, fn := range funcs[f.Name] {
				out = append(out, fn.Body)
			}
			return out
		case *ast.SelectorExpr:
			var out []*ast.BlockStmt
			for _, fn := range funcs[f.Sel.Name] {
				out = append(out, fn.Body)
			}
			return out
		}
		return nil
	}
	isCloseOfStringChan := func(call *ast.CallExpr) bool {
		id, ok := call.Fun.(*ast.Ident)
		return ok && id.Name == "close" && len(call.Args) == 1 && isStringChan(call.Args[0])
	}
	sendsUnconditional := true
	for name := range reach {
		for _, fn := range funcs[name] {
			ast.Inspect(fn.Body, func(n ast.Node) bool {
				if cc, ok := n.(*ast.CommClause); ok {
					// a channel whose element type cannot be read off syntactically counts as the construct channel
					if snd, ok := cc.Comm.(*ast.SendStmt); ok && (isStringChan(snd.Chan) || !knownChan(snd.Chan)) {
						sendsUnconditional = false
					}
				}
				return true
			})
		}
	}
	addBeforeGo, deferDoneFirst, closeAfterWait, collectorBeforeWait := true, true, true, true
	checkList := func(list []ast.Stmt) {
		for i, st := range list {
			switch x := st.(type) {
			case *ast.GoStmt:
				worker, collector := false, false
				for _, body := range targets(x) {
					if hasCall(body, "Done") {
						worker = true
						first := len(body.List) > 0
						if first {
							d, ok := body.List[0].(*ast.DeferStmt)
							sel, ok2 := (*ast.SelectorExpr)(nil), false
							if ok {
								sel, ok2 = d.Call.Fun.(*ast.SelectorExpr)
							}
							first = ok && ok2 && sel.Sel.Name == "Done"
						}
						if !first {
							deferDoneFirst = false
						}
					}
					if receivesString(body) {
						collector = true
					}
				}
				if worker {
					okAdd := false
					if i > 0 {
						if es, ok := list[i-1].(*ast.ExprStmt); ok {
							if call, ok := es.X.(*ast.CallExpr); ok {
								if sel, ok := call.Fun.(*ast.SelectorExpr); ok && sel.Sel.Name == "Add" {
									okAdd = true
								}
							}
						}
					}
					if !okAdd {
						addBeforeGo = false
					}
				}
				if collector {
					before, after := false, false
					for j, other := range list {
						if j < i && nodeWaits(other) {
							before = true
						}
						if j > i && nodeWaits(other) {
							after = true
						}
					}
					if before || !after {
						collectorBeforeWait = false
					}
				}
			case *ast.ExprStmt:
				if call, ok := x.X.(*ast.CallExpr); ok && isCloseOfStringChan(call) {
					waited := false
					for j := 0; j < i; j++ {
						if nodeWaits(list[j]) {
							waited = true
						}
					}
					if !waited {
						closeAfterWait = false
					}
				}
			case *ast.DeferStmt:
				if isCloseOfStringChan(x.Call) {
					waited := false
					for j := i + 1; j < len(list); j++ {
						if nodeWaits(list[j]) {
							waited = true
						}
					}
					if !waited {
						closeAfterWait = false
					}
				}
			}
		}
	}
	for name := range reach {
		for _, fn := range funcs[name] {
			ast.Inspect(fn.Body, func(n ast.Node) bool {
				switch x := n.(type) {
				case *ast.BlockStmt:
					checkList(x.List)
				case *ast.CaseClause:
					checkList(x.Body)
				case *ast.CommClause:
					checkList(x.Body)
				}
				return true
			})
		}
	}
	list := func(m map[string]bool) string {
		var ks []string
		for k := range m {
			ks = append(ks, k)
		}
		sort.Strings(ks)
		q := make([]string, len(ks))
		for i, k := range ks {
			q[i] = fmt.Sprintf("%q", k)
		}
		return "[" + strings.Join(q, ", ") + "]"
	}
	var b strings.Builder
	b.WriteString("-- REGENERATED by harness/cmd/extract-clone from clone/clone.go (go/ast); do not edit.\n")
	b.WriteString("namespace PolyVerif.Gen\n\n")
	fmt.Fprintf(&b, "def clonePrimitives : List String := %s\n\n", list(prims))
	fmt.Fprintf(&b, "def cloneSyncCalls : List String := %s\n\n", list(calls))
	fmt.Fprintf(&b, "def cloneStringChanCollectors : Nat := %d\n\n", collectors)
	fmt.Fprintf(&b, "def cloneStringChanSenders : Bool := %v\n\n", senders)
	fmt.Fprintf(&b, "def cloneAddBeforeGo : Bool := %v\n\n", addBeforeGo)
	fmt.Fprintf(&b, "def cloneDeferDoneFirst : Bool := %v\n\n", deferDoneFirst)
	fmt.Fprintf(&b, "def cloneCloseAfterWait : Bool := %v\n\n", closeAfterWait)
	fmt.Fprintf(&b, "def cloneCollectorBeforeWait : Bool := %v\n\n", collectorBeforeWait)
	fmt.Fprintf(&b, "def cloneSendsUnconditional : Bool := %v\n\n", sendsUnconditional)
	b.WriteString("end PolyVerif.Gen\n")
	return b.String(), nil
}

func init() { extractor.RegisterGen("CloneFacts", cloneFacts) }
