package main

// Unlike the other extractors this one reads SOURCE ($VERIF_REPO/clone/clone.go, default /repo) with go/parser + go/ast:
// the schedule structure of CircularLigate cannot be observed through the API.  The facts cover the functions reachable
// from clone.CircularLigate (by name, within the file) and are deliberately coarse — sets,
// not counts, positions or names — so that a restructuring which keeps the same synchronisation vocabulary (helpers,
// `range c` instead of `v, more := <-c`, a buffered channel, one goroutine per seed instead of one per partial construct,
// directional channel types) leaves them unchanged, while a NEW mechanism (a semaphore channel, a mutex, sync.Map,
// select, atomics, a second collector) changes them:
//
//   clonePrimitives            the synchronisation vocabulary of the file: "go", "close", "select", "chan:<element type>"
//                              for every make(chan T …) (capacity ignored), "sync.<T>" for every sync type named,
//                              "import:sync/atomic" / "import:context" / "import:golang.org/x/sync/…"
//   cloneSyncCalls             which of the method names Add Done Wait Lock Unlock RLock RUnlock Load Store LoadOrStore
//                              Do Go are called on anything
//   cloneStringChanCollectors  in how many functions a `chan string` (the construct channel) is received from
//   cloneStringChanSenders     whether anything is sent on a `chan string`

import (
	"fmt"
	"go/ast"
	"go/parser"
	"go/printer"
	"go/token"
	"os"
	"path/filepath"
	"sort"
	"strings"

	"verifharness/extractor"
)

func typeText(fset *token.FileSet, e ast.Expr) string {
	var b strings.Builder
	printer.Fprint(&b, fset, e)
	return b.String()
}

func cloneFacts() (string, error) {
	repo := os.Getenv("VERIF_REPO")
	if repo == "" {
		repo = "/repo"
	}
	fset := token.NewFileSet()
	file, err := parser.ParseFile(fset, filepath.Join(repo, "clone", "clone.go"), nil, 0)
	if err != nil {
		return "", err
	}
	prims := map[string]bool{}
	calls := map[string]bool{}
	watched := map[string]bool{"Add": true, "Done": true, "Wait": true, "Lock": true, "Unlock": true, "RLock": true,
		"RUnlock": true, "Load": true, "Store": true, "LoadOrStore": true, "Do": true, "Go": true}
	for _, imp := range file.Imports {
		p := strings.Trim(imp.Path.Value, "\"")
		if p == "sync/atomic" || p == "context" || strings.HasPrefix(p, "golang.org/x/sync") {
			prims["import:"+p] = true
		}
	}
	collectors := 0
	senders := false
	// scope: the functions reachable from the exported entry point CircularLigate (calls, `go` statements, method calls and
	// function values, matched by name within the file) — the digest and the enzyme table are not part of the schedule
	funcs := map[string][]*ast.FuncDecl{}
	for _, decl := range file.Decls {
		if fn, ok := decl.(*ast.FuncDecl); ok && fn.Body != nil {
			funcs[fn.Name.Name] = append(funcs[fn.Name.Name], fn)
		}
	}
	reach := map[string]bool{}
	var visit func(name string)
	visit = func(name string) {
		if reach[name] || funcs[name] == nil {
			return
		}
		reach[name] = true
		for _, fn := range funcs[name] {
			ast.Inspect(fn.Body, func(n ast.Node) bool {
				if id, ok := n.(*ast.Ident); ok {
					visit(id.Name)
				}
				return true
			})
		}
	}
	visit("CircularLigate")
	if !reach["CircularLigate"] {
		return "", fmt.Errorf("clone.CircularLigate not found")
	}
	// package-level variables (a semaphore channel, a mutex, a cache …): their mechanisms count where they are referenced
	globals := map[string][]string{}
	for _, decl := range file.Decls {
		gd, ok := decl.(*ast.GenDecl)
		if !ok || gd.Tok != token.VAR {
			continue
		}
		for _, spec := range gd.Specs {
			vs := spec.(*ast.ValueSpec)
			var found []string
			ast.Inspect(vs, func(n ast.Node) bool {
				switch x := n.(type) {
				case *ast.SelectorExpr:
					if id, ok := x.X.(*ast.Ident); ok && id.Name == "sync" {
						found = append(found, "sync."+x.Sel.Name)
					}
				case *ast.ChanType:
					found = append(found, "chan:"+typeText(fset, x.Value))
				}
				return true
			})
			for _, nm := range vs.Names {
				globals[nm.Name] = found
			}
		}
	}
	for _, decl := range file.Decls {
		fn, ok := decl.(*ast.FuncDecl)
		if !ok || fn.Body == nil || !reach[fn.Name.Name] {
			continue
		}
		ast.Inspect(fn, func(n ast.Node) bool {
			switch x := n.(type) {
			case *ast.SelectorExpr:
				if id, ok := x.X.(*ast.Ident); ok && id.Name == "sync" {
					prims["sync."+x.Sel.Name] = true
				}
			case *ast.Ident:
				for _, g := range globals[x.Name] {
					prims[g] = true
				}
			}
			return true
		})
		// element types of the channels this function can name: parameters, make(chan T), struct fields are ignored
		elem := map[string]string{}
		noteChan := func(name string, t ast.Expr) {
			if ct, ok := t.(*ast.ChanType); ok {
				elem[name] = typeText(fset, ct.Value)
			}
		}
		if fn.Type.Params != nil {
			for _, f := range fn.Type.Params.List {
				for _, nm := range f.Names {
					noteChan(nm.Name, f.Type)
				}
			}
		}
		ast.Inspect(fn, func(n ast.Node) bool {
			switch x := n.(type) {
			case *ast.FuncLit:
				for _, f := range x.Type.Params.List {
					for _, nm := range f.Names {
						noteChan(nm.Name, f.Type)
					}
				}
			case *ast.AssignStmt:
				for i, rhs := range x.Rhs {
					if call, ok := rhs.(*ast.CallExpr); ok {
						if id, ok := call.Fun.(*ast.Ident); ok && id.Name == "make" && len(call.Args) > 0 {
							if ct, ok := call.Args[0].(*ast.ChanType); ok {
								prims["chan:"+typeText(fset, ct.Value)] = true
								if i < len(x.Lhs) {
									if l, ok := x.Lhs[i].(*ast.Ident); ok {
										elem[l.Name] = typeText(fset, ct.Value)
									}
								}
							}
						}
					}
				}
			}
			return true
		})
		chanOf := func(e ast.Expr) string {
			switch x := e.(type) {
			case *ast.Ident:
				return elem[x.Name]
			case *ast.SelectorExpr: // a channel kept in a struct field: resolved by the field's name only
				return elem[x.Sel.Name]
			}
			return ""
		}
		// struct-field channels: take the element type from any struct type of the file with a field of that name
		for _, d := range file.Decls {
			ast.Inspect(d, func(n ast.Node) bool {
				if st, ok := n.(*ast.StructType); ok {
					for _, f := range st.Fields.List {
						for _, nm := range f.Names {
							if _, seen := elem[nm.Name]; !seen {
								noteChan(nm.Name, f.Type)
							}
						}
					}
				}
				return true
			})
		}
		receives := false
		ast.Inspect(fn, func(n ast.Node) bool {
			switch x := n.(type) {
			case *ast.GoStmt:
				prims["go"] = true
			case *ast.SelectStmt:
				prims["select"] = true
			case *ast.CallExpr:
				if id, ok := x.Fun.(*ast.Ident); ok && id.Name == "close" {
					prims["close"] = true
				}
				if sel, ok := x.Fun.(*ast.SelectorExpr); ok && watched[sel.Sel.Name] {
					calls[sel.Sel.Name] = true
				}
			case *ast.SendStmt:
				if chanOf(x.Chan) == "string" {
					senders = true
				}
			case *ast.UnaryExpr:
				if x.Op == token.ARROW && chanOf(x.X) == "string" {
					receives = true
				}
			case *ast.RangeStmt:
				if chanOf(x.X) == "string" {
					receives = true
				}
			}
			return true
		})
		if receives {
			collectors++
		}
	}
	list := func(m map[string]bool) string {
		var ks []string
		for k := range m {
			ks = append(ks, k)
		}
		sort.Strings(ks)
		q := make([]string, len(ks))
		for i, k := range ks {
			q[i] = fmt.Sprintf("%q", k)
		}
		return "[" + strings.Join(q, ", ") + "]"
	}
	var b strings.Builder
	b.WriteString("-- REGENERATED by harness/cmd/extract-clone from clone/clone.go (go/ast); do not edit.\n")
	b.WriteString("namespace PolyVerif.Gen\n\n")
	fmt.Fprintf(&b, "def clonePrimitives : List String := %s\n\n", list(prims))
	fmt.Fprintf(&b, "def cloneSyncCalls : List String := %s\n\n", list(calls))
	fmt.Fprintf(&b, "def cloneStringChanCollectors : Nat := %d\n\n", collectors)
	fmt.Fprintf(&b, "def cloneStringChanSenders : Bool := %v\n\n", senders)
	b.WriteString("end PolyVerif.Gen\n")
	return b.String(), nil
}

func init() { extractor.RegisterGen("CloneFacts", cloneFacts) }
