package main

import (
	"strings"

	"github.com/TimothyStiles/poly/checks"
	"github.com/TimothyStiles/poly/seqhash"
	"github.com/TimothyStiles/poly/transform"
	"github.com/TimothyStiles/poly/transform/variants"
)

func init() {
	// C11
	register("revcomp", func(a []string) ([]string, error) {
		return []string{transform.ReverseComplement(a[0]), transform.Complement(a[0]), transform.Reverse(a[0]), bstr(checks.IsPalindromic(a[0]))}, nil
	})
	register("variants", func(a []string) ([]string, error) {
		v, err := variants.AllVariantsIUPAC(a[0])
		if err != nil {
			return nil, err
		}
		return []string{strings.Join(v, ",")}, nil
	})
	// C12
	register("rotate", func(a []string) ([]string, error) {
		return []string{seqhash.RotateSequence(a[0])}, nil
	})
	// C04 / C05
	register("hash", func(a []string) ([]string, error) {
		h, err := seqhash.Hash(a[0], a[1], a[2] == "true", a[3] == "true")
		if err != nil {
			return nil, err
		}
		return []string{h}, nil
	})
}

func bstr(b bool) string {
	if b {
		return "true"
	}
	return "false"
}
