package main

// C15: Gen/PolyStructs.lean — for every struct type reachable from poly.Sequence, the ordered
// list of (Go field, JSON member name, omitempty, kind, flags).
//
// The kinds come from reflect.  The JSON side is observed, not re-derived from the tags:
// for each field a value is built in which only that field is non-zero, json.Marshal is
// called, and the member whose encoding differs from the all-zero encoding is the field's JSON
// name (none: the field is not part of the JSON form — `json:"-"`, unexported, or dropped by
// Go's duplicate-name rule).  A member that is absent from the all-zero encoding is
// `omitempty`.  The decoder is probed the other way round ({member: probe value} must set
// exactly that field).  Anything else (quoted scalars, custom marshalers, embedded structs)
// is flagged and makes the table lemmas in Props/C15 fail.

import (
	"bytes"
	"encoding"
	"encoding/json"
	"fmt"
	"reflect"
	"sort"
	"strings"
	"verifharness/extractor"

	"github.com/TimothyStiles/poly"
)

var (
	jsonMarshalerT   = reflect.TypeOf((*json.Marshaler)(nil)).Elem()
	jsonUnmarshalerT = reflect.TypeOf((*json.Unmarshaler)(nil)).Elem()
	textMarshalerT   = reflect.TypeOf((*encoding.TextMarshaler)(nil)).Elem()
	textUnmarshalerT = reflect.TypeOf((*encoding.TextUnmarshaler)(nil)).Elem()
)

func customCodec(t reflect.Type) bool {
	for _, it := range []reflect.Type{jsonMarshalerT, jsonUnmarshalerT, textMarshalerT, textUnmarshalerT} {
		if t.Implements(it) || reflect.PointerTo(t).Implements(it) {
			return true
		}
	}
	return false
}

// codecsOf lists the codec interfaces the type (value or pointer receiver) implements
func codecsOf(t reflect.Type) []string {
	var out []string
	for _, c := range []struct {
		name string
		it   reflect.Type
	}{{"json.Marshaler", jsonMarshalerT}, {"json.Unmarshaler", jsonUnmarshalerT},
		{"encoding.TextMarshaler", textMarshalerT}, {"encoding.TextUnmarshaler", textUnmarshalerT}} {
		if t.Implements(c.it) || reflect.PointerTo(t).Implements(c.it) {
			out = append(out, c.name)
		}
	}
	return out
}

// typesIn: t and every type nested in it through slices, arrays, pointers and maps (keys and elements)
func typesIn(t reflect.Type, out *[]reflect.Type) {
	*out = append(*out, t)
	switch t.Kind() {
	case reflect.Slice, reflect.Array, reflect.Ptr:
		typesIn(t.Elem(), out)
	case reflect.Map:
		typesIn(t.Key(), out)
		typesIn(t.Elem(), out)
	}
}

func leanStr(s string) string {
	var b strings.Builder
	b.WriteByte('"')
	for _, r := range s {
		switch {
		case r == '"' || r == '\\':
			b.WriteByte('\\')
			b.WriteRune(r)
		case r < 32 || r > 126:
			fmt.Fprintf(&b, "\\u{%x}", r)
		default:
			b.WriteRune(r)
		}
	}
	b.WriteByte('"')
	return b.String()
}

func leanCps(s string) string {
	var items []string
	for _, r := range s {
		items = append(items, fmt.Sprint(int(r)))
	}
	return "[" + strings.Join(items, ", ") + "]"
}

func kindOf(t reflect.Type) string {
	switch t.Kind() {
	case reflect.String:
		return ".str"
	case reflect.Int:
		return ".int"
	case reflect.Bool:
		return ".bool"
	case reflect.Struct:
		return "(.struct " + leanStr(t.Name()) + ")"
	case reflect.Slice:
		return "(.slice " + kindOf(t.Elem()) + ")"
	case reflect.Map:
		if t.Key().Kind() == reflect.String && t.Elem().Kind() == reflect.String {
			return ".mapSS"
		}
	case reflect.Ptr:
		if t.Elem().Kind() == reflect.Struct {
			return "(.ptr " + leanStr(t.Elem().Name()) + ")"
		}
	}
	return "(.other " + leanStr(t.String()) + ")"
}

// probeValue builds a non-zero value of type t and, for scalars, the JSON text expected for it.
func probeValue(t reflect.Type) (reflect.Value, string) {
	v := reflect.New(t).Elem()
	switch t.Kind() {
	case reflect.String:
		v.SetString("probe")
		return v, `"probe"`
	case reflect.Int, reflect.Int8, reflect.Int16, reflect.Int32, reflect.Int64:
		v.SetInt(7)
		return v, "7"
	case reflect.Uint, reflect.Uint8, reflect.Uint16, reflect.Uint32, reflect.Uint64:
		v.SetUint(7)
		return v, "7"
	case reflect.Bool:
		v.SetBool(true)
		return v, "true"
	case reflect.Float32, reflect.Float64:
		v.SetFloat(7)
		return v, "7"
	case reflect.Slice:
		v.Set(reflect.MakeSlice(t, 1, 1))
		return v, ""
	case reflect.Map:
		m := reflect.MakeMap(t)
		if t.Key().Kind() == reflect.String {
			k := reflect.New(t.Key()).Elem()
			k.SetString("k")
			e, _ := probeValue(t.Elem())
			m.SetMapIndex(k, e)
		}
		v.Set(m)
		return v, ""
	case reflect.Ptr:
		v.Set(reflect.New(t.Elem()))
		return v, ""
	case reflect.Struct:
		for i := 0; i < t.NumField(); i++ {
			if t.Field(i).PkgPath != "" {
				continue
			}
			k := t.Field(i).Type.Kind()
			if k == reflect.String || k == reflect.Int || k == reflect.Bool {
				e, _ := probeValue(t.Field(i).Type)
				v.Field(i).Set(e)
			}
		}
		return v, ""
	}
	return v, ""
}

func members(v interface{}) (map[string]string, error) {
	raw, err := json.Marshal(v)
	if err != nil {
		return nil, err
	}
	var m map[string]json.RawMessage
	if err := json.Unmarshal(raw, &m); err != nil {
		return nil, err
	}
	out := map[string]string{}
	for k, r := range m {
		out[k] = string(r)
	}
	return out, nil
}

func structTable(t reflect.Type) (string, []reflect.Type, error) {
	var b strings.Builder
	var reach []reflect.Type
	zero, err := members(reflect.New(t).Interface())
	if err != nil {
		return "", nil, err
	}
	fmt.Fprintf(&b, "  (%s, [\n", leanStr(t.Name()))
	for i := 0; i < t.NumField(); i++ {
		f := t.Field(i)
		var flags []string
		jsonName := "none"
		omit := false
		if f.Anonymous {
			flags = append(flags, "embedded")
		}
		if f.PkgPath != "" {
			flags = append(flags, "unexported")
		} else {
			if customCodec(f.Type) {
				flags = append(flags, "custom")
			}
			probe := reflect.New(t)
			pv, want := probeValue(f.Type)
			probe.Elem().Field(i).Set(pv)
			got, err := members(probe.Interface())
			if err != nil {
				return "", nil, err
			}
			var changed []string
			for k, r := range got {
				if z, ok := zero[k]; !ok || z != r {
					changed = append(changed, k)
				}
			}
			for k := range zero {
				if _, ok := got[k]; !ok {
					changed = append(changed, k)
				}
			}
			sort.Strings(changed)
			if len(changed) > 1 {
				flags = append(flags, "multi")
			}
			if len(changed) >= 1 {
				k := changed[0]
				jsonName = fmt.Sprintf("(some %s /- %s -/)", leanCps(k), strings.ReplaceAll(leanStr(k), "-/", "- /"))
				_, inZero := zero[k]
				omit = !inZero
				if want != "" && got[k] != want {
					flags = append(flags, "quoted")
				}
				// decoder probe: {member: value} must set exactly this field
				kj, _ := json.Marshal(k)
				doc := append(append(append([]byte("{"), kj...), ':'), append([]byte(got[k]), '}')...)
				back := reflect.New(t)
				dec := json.NewDecoder(bytes.NewReader(doc))
				if err := dec.Decode(back.Interface()); err != nil || !reflect.DeepEqual(back.Elem().Interface(), probe.Elem().Interface()) {
					flags = append(flags, "asym")
				}
			}
		}
		var fl []string
		for _, x := range flags {
			fl = append(fl, leanStr(x))
		}
		sep := ","
		if i == t.NumField()-1 {
			sep = ""
		}
		var nested []reflect.Type
		typesIn(f.Type, &nested)
		var tn []string
		for _, nt := range nested {
			tn = append(tn, leanStr(nt.String()))
		}
		fmt.Fprintf(&b, "    { go := %s, json := %s, omitempty := %v, kind := %s, flags := [%s], typs := [%s] }%s\n",
			leanStr(f.Name), jsonName, omit, kindOf(f.Type), strings.Join(fl, ", "), strings.Join(tn, ", "), sep)
		// reachable struct types
		ft := f.Type
		for ft.Kind() == reflect.Slice || ft.Kind() == reflect.Ptr || ft.Kind() == reflect.Map || ft.Kind() == reflect.Array {
			ft = ft.Elem()
		}
		if ft.Kind() == reflect.Struct {
			reach = append(reach, ft)
		}
	}
	b.WriteString("  ])")
	return b.String(), reach, nil
}

func init() {
	extractor.RegisterGen("PolyStructs", func() (string, error) {
		var b strings.Builder
		b.WriteString("import PolyVerif.Base.JVal\n")
		b.WriteString("/- REGENERATED by harness/cmd/extract-io: every struct type reachable from poly.Sequence (reflect),\n" +
			"   in order of discovery; per field the JSON member name observed from json.Marshal / Unmarshal of the\n" +
			"   compiled types (none = the field is not part of the JSON form). Do not edit. -/\n")
		b.WriteString("namespace PolyVerif.Gen\nopen PolyVerif\n\ndef polyStructs : List (String × List PField) := [\n")
		queue := []reflect.Type{reflect.TypeOf(poly.Sequence{})}
		seen := map[reflect.Type]bool{queue[0]: true}
		first := true
		var order []reflect.Type
		for len(queue) > 0 {
			t := queue[0]
			queue = queue[1:]
			order = append(order, t)
			text, reach, err := structTable(t)
			if err != nil {
				return "", err
			}
			if !first {
				b.WriteString(",\n")
			}
			first = false
			b.WriteString(text)
			for _, r := range reach {
				if !seen[r] {
					seen[r] = true
					queue = append(queue, r)
				}
			}
		}
		b.WriteString("]\n\n")
		// custom codecs: every struct type reachable from poly.Sequence (the root included) and every type that
		// occurs in a field (the field's type, slice / array / map / pointer element and key types), with the
		// json / text (un)marshaler interfaces it implements through a value or a pointer receiver
		b.WriteString("/-- (type, codec interfaces it implements): must all be empty for the model to be the JSON form -/\n")
		b.WriteString("def polyCodecs : List (String × List String) := [\n")
		var all []reflect.Type
		done := map[reflect.Type]bool{}
		for _, t := range order {
			typesIn(t, &all)
			for i := 0; i < t.NumField(); i++ {
				typesIn(t.Field(i).Type, &all)
			}
		}
		firstC := true
		for _, t := range all {
			if done[t] {
				continue
			}
			done[t] = true
			var cs []string
			for _, c := range codecsOf(t) {
				cs = append(cs, leanStr(c))
			}
			if !firstC {
				b.WriteString(",\n")
			}
			firstC = false
			fmt.Fprintf(&b, "  (%s, [%s])", leanStr(t.String()), strings.Join(cs, ", "))
		}
		b.WriteString("]\n\nend PolyVerif.Gen\n")
		return b.String(), nil
	})
}
