// Command extract-io: regenerates Gen tables for the io packages (struct field lists).
package main

import "verifharness/extractor"

func main() { extractor.Main() }
