package main

// C17 — De Bruijn sequence and barcodes (primers.NucleobaseDeBruijnSequence,
// primers.CreateBarcodesWithBannedSequences, primers.CreateBarcodes).

import (
	"strconv"
	"strings"

	"verifharness/runner"

	"github.com/TimothyStiles/poly/primers"
	"github.com/TimothyStiles/poly/transform"
)

func c17Atoi(s string) int {
	n, err := strconv.Atoi(s)
	if err != nil {
		return 0
	}
	return n
}

// The named filter family of the protocol; the same functions are `namedFilter` in
// lean/PolyVerif/Model/Barcodes.lean.  A filter returns true when the barcode is ACCEPTED.
func c17Filter(spec string) func(string) bool {
	p := strings.Split(spec, ":")
	switch {
	case len(p) == 2 && p[0] == "homo": // no run of equal letters of length >= k
		k := c17Atoi(p[1])
		return func(s string) bool {
			best, cur := 0, 0
			for i := 0; i < len(s); i++ {
				if i > 0 && s[i] == s[i-1] {
					cur++
				} else {
					cur = 1
				}
				if cur > best {
					best = cur
				}
			}
			return best < k
		}
	case len(p) == 3 && p[0] == "gc": // lo <= #G + #C <= hi
		lo, hi := c17Atoi(p[1]), c17Atoi(p[2])
		return func(s string) bool {
			n := strings.Count(s, "G") + strings.Count(s, "C")
			return lo <= n && n <= hi
		}
	case len(p) == 2 && p[0] == "nostart":
		x := p[1]
		return func(s string) bool { return !(x != "" && strings.HasPrefix(s, x)) }
	case len(p) == 2 && p[0] == "noend":
		x := p[1]
		return func(s string) bool { return !(x != "" && strings.HasSuffix(s, x)) }
	case len(p) == 1 && p[0] == "nopal":
		return func(s string) bool { return s != transform.ReverseComplement(s) }
	}
	return func(string) bool { return true }
}

// c17Barcodes runs one barcode call: args = length n nb ban_1..ban_nb nf filter_1..filter_nf.
// The barcode function is called FIRST; only afterwards is the de Bruijn sequence of that order
// fetched (so that a memoised sequence inside poly cannot have been primed by the harness), and
// only after that, for a call without bans and filters, the other entry point, whose agreement is
// reported in a field of its own ("=" / "differs"): a difference is a correspondence difference,
// not a failing input of the property.
// Reply: sequence of order n, number of barcodes, barcodes joined by ",", entry-point flag.
func c17Barcodes(a []string) []string {
	length, n, nb := c17Atoi(a[0]), c17Atoi(a[1]), c17Atoi(a[2])
	bans := []string{}
	for i := 0; i < nb; i++ {
		bans = append(bans, a[3+i])
	}
	nf := c17Atoi(a[3+nb])
	filters := []func(string) bool{}
	for i := 0; i < nf; i++ {
		filters = append(filters, c17Filter(a[4+nb+i]))
	}
	var out []string
	if nb == 0 && nf == 0 {
		out = primers.CreateBarcodes(length, n)
	} else {
		out = primers.CreateBarcodesWithBannedSequences(length, n, bans, filters)
	}
	res := []string{"", strconv.Itoa(len(out)), strings.Join(out, ","), "="}
	res[0] = primers.NucleobaseDeBruijnSequence(n)
	if nb == 0 && nf == 0 {
		alt := primers.CreateBarcodesWithBannedSequences(length, n, bans, filters)
		if strings.Join(alt, ",") != res[2] || len(alt) != len(out) {
			res[3] = "differs"
		}
	}
	return res
}

func init() {
	// debruijn n  ->  the sequence
	runner.Register("debruijn", func(a []string) ([]string, error) {
		return []string{primers.NucleobaseDeBruijnSequence(c17Atoi(a[0]))}, nil
	})
	// barcodes length n nb ban_1..ban_nb nf filter_1..filter_nf
	runner.Register("barcodes", func(a []string) ([]string, error) {
		return c17Barcodes(a), nil
	})
	// barcodeshist m k_1 <k_1 fields of a barcodes request> ... k_m <k_m fields>
	//   a history of m barcode calls in this one process, in order; reply = the m replies concatenated
	runner.Register("barcodeshist", func(a []string) ([]string, error) {
		m := c17Atoi(a[0])
		pos := 1
		var res []string
		for i := 0; i < m; i++ {
			k := c17Atoi(a[pos])
			res = append(res, c17Barcodes(a[pos+1:pos+1+k])...)
			pos += 1 + k
		}
		return res, nil
	})
}
