package main

// C17 — De Bruijn sequence and barcodes (primers.NucleobaseDeBruijnSequence,
// primers.CreateBarcodesWithBannedSequences, primers.CreateBarcodes).

import (
	"strconv"
	"strings"

	"verifharness/runner"

	"github.com/TimothyStiles/poly/primers"
	"github.com/TimothyStiles/poly/transform"
)

func c17Atoi(s string) int {
	n, err := strconv.Atoi(s)
	if err != nil {
		return 0
	}
	return n
}

// The named filter family of the protocol; the same functions are `namedFilter` in
// lean/PolyVerif/Model/Barcodes.lean.  A filter returns true when the barcode is ACCEPTED.
func c17Filter(spec string) func(string) bool {
	p := strings.Split(spec, ":")
	switch {
	case len(p) == 2 && p[0] == "homo": // no run of equal letters of length >= k
		k := c17Atoi(p[1])
		return func(s string) bool {
			best, cur := 0, 0
			for i := 0; i < len(s); i++ {
				if i > 0 && s[i] == s[i-1] {
					cur++
				} else {
					cur = 1
				}
				if cur > best {
					best = cur
				}
			}
			return best < k
		}
	case len(p) == 3 && p[0] == "gc": // lo <= #G + #C <= hi
		lo, hi := c17Atoi(p[1]), c17Atoi(p[2])
		return func(s string) bool {
			n := strings.Count(s, "G") + strings.Count(s, "C")
			return lo <= n && n <= hi
		}
	case len(p) == 2 && p[0] == "nostart":
		x := p[1]
		return func(s string) bool { return !(x != "" && strings.HasPrefix(s, x)) }
	case len(p) == 2 && p[0] == "noend":
		x := p[1]
		return func(s string) bool { return !(x != "" && strings.HasSuffix(s, x)) }
	case len(p) == 1 && p[0] == "nopal":
		return func(s string) bool { return s != transform.ReverseComplement(s) }
	}
	return func(string) bool { return true }
}

func init() {
	// debruijn n  ->  the sequence
	runner.Register("debruijn", func(a []string) ([]string, error) {
		return []string{primers.NucleobaseDeBruijnSequence(c17Atoi(a[0]))}, nil
	})
	// barcodes length n nb ban_1..ban_nb nf filter_1..filter_nf
	//   ->  the de Bruijn sequence of order n, the number of barcodes, the barcodes joined by ","
	// With nb = nf = 0 the call goes through CreateBarcodes.
	runner.Register("barcodes", func(a []string) ([]string, error) {
		length, n, nb := c17Atoi(a[0]), c17Atoi(a[1]), c17Atoi(a[2])
		bans := []string{}
		for i := 0; i < nb; i++ {
			bans = append(bans, a[3+i])
		}
		nf := c17Atoi(a[3+nb])
		filters := []func(string) bool{}
		for i := 0; i < nf; i++ {
			filters = append(filters, c17Filter(a[4+nb+i]))
		}
		db := primers.NucleobaseDeBruijnSequence(n)
		var out []string
		if nb == 0 && nf == 0 {
			out = primers.CreateBarcodes(length, n)
			// the two entry points must agree
			alt := primers.CreateBarcodesWithBannedSequences(length, n, bans, filters)
			if strings.Join(alt, ",") != strings.Join(out, ",") || len(alt) != len(out) {
				return []string{db, "-1", "CreateBarcodes differs from CreateBarcodesWithBannedSequences"}, nil
			}
		} else {
			out = primers.CreateBarcodesWithBannedSequences(length, n, bans, filters)
		}
		return []string{db, strconv.Itoa(len(out)), strings.Join(out, ",")}, nil
	})
}
