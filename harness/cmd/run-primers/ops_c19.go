package main

// C19 — melting temperature.  Floats travel as IEEE-754 bit patterns (16 hex digits of
// math.Float64bits), so no decimal formatting or parsing is involved on either side.

import (
	"fmt"
	"math"
	"strconv"
	"strings"
	"verifharness/runner"

	"github.com/TimothyStiles/poly/primers"
)

func c19Bits(f float64) string { return fmt.Sprintf("%016x", math.Float64bits(f)) }

func c19Float(s string) (float64, error) {
	u, err := strconv.ParseUint(s, 16, 64)
	if err != nil {
		return 0, fmt.Errorf("bad float bits %q", s)
	}
	return math.Float64frombits(u), nil
}

func c19List(s string) ([]float64, error) {
	var out []float64
	for _, p := range strings.Split(s, ",") {
		f, err := c19Float(p)
		if err != nil {
			return nil, err
		}
		out = append(out, f)
	}
	return out, nil
}

// one call of SantaLucia with its own recover: status, Tm, dH, dS
func c19Call(seq string, c, na, mg float64) (out []string) {
	defer func() {
		if p := recover(); p != nil {
			out = []string{"panic", "", "", ""}
		}
	}()
	tm, dh, ds := primers.SantaLucia(seq, c, na, mg)
	return []string{"ok", c19Bits(tm), c19Bits(dh), c19Bits(ds)}
}

func c19One(f func() float64) (out []string) {
	defer func() {
		if p := recover(); p != nil {
			out = []string{"panic", ""}
		}
	}()
	return []string{"ok", c19Bits(f())}
}

func init() {
	// c19.batch  (seq c na mg)*  ->  (status Tm dH dS)*
	runner.Register("c19.batch", func(a []string) ([]string, error) {
		if len(a)%4 != 0 {
			return nil, fmt.Errorf("bad arity")
		}
		var out []string
		for i := 0; i+3 < len(a); i += 4 {
			c, e1 := c19Float(a[i+1])
			na, e2 := c19Float(a[i+2])
			mg, e3 := c19Float(a[i+3])
			if e1 != nil || e2 != nil || e3 != nil {
				return nil, fmt.Errorf("bad float")
			}
			out = append(out, c19Call(a[i], c, na, mg)...)
		}
		return out, nil
	})
	// c19.grid  seq clist nalist mglist  ->  (status Tm dH dS)* over the product, c slowest, mg fastest
	runner.Register("c19.grid", func(a []string) ([]string, error) {
		cs, e1 := c19List(a[1])
		nas, e2 := c19List(a[2])
		mgs, e3 := c19List(a[3])
		if e1 != nil || e2 != nil || e3 != nil {
			return nil, fmt.Errorf("bad float")
		}
		var out []string
		for _, c := range cs {
			for _, na := range nas {
				for _, mg := range mgs {
					out = append(out, c19Call(a[0], c, na, mg)...)
				}
			}
		}
		return out, nil
	})
	// c19.mt  seq c na mg  ->  status MeltingTemp(seq), status SantaLucia(seq,c,na,mg).Tm, status MarmurDoty(seq)
	runner.Register("c19.mt", func(a []string) ([]string, error) {
		c, e1 := c19Float(a[1])
		na, e2 := c19Float(a[2])
		mg, e3 := c19Float(a[3])
		if e1 != nil || e2 != nil || e3 != nil {
			return nil, fmt.Errorf("bad float")
		}
		var out []string
		out = append(out, c19One(func() float64 { return primers.MeltingTemp(a[0]) })...)
		out = append(out, c19One(func() float64 { t, _, _ := primers.SantaLucia(a[0], c, na, mg); return t })...)
		out = append(out, c19One(func() float64 { return primers.MarmurDoty(a[0]) })...)
		return out, nil
	})
}
