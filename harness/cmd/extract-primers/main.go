// Command extract-primers: regenerates Gen/NNTable.lean (nearest-neighbour parameters and penalties observed through primers.SantaLucia).
package main

import "verifharness/extractor"

func main() { extractor.Main() }
