package main

import (
	"fmt"
	"math"
	"strings"
	"verifharness/extractor"

	"github.com/TimothyStiles/poly/primers"
	"github.com/TimothyStiles/poly/transform"
)

// The nearest-neighbour table of poly/primers is unexported.  It is observed through the
// exported primers.SantaLucia: at sodium 1.0 M and magnesium 0 the salt term is
// 0.368*(N-1)*ln(1) = 0, so (dH, dS) of a sequence is the sum of its additive terms only.
//
//	obs(s) = init + [s self-complementary]*sym + term(last letter of s) + sum of pair(s[i], s[i+1])
//
// Only inputs INSIDE the property's quantifier are used for the part the theorems rest on: A/C/G/T
// sequences of length 2 and 3 at positive concentrations (a sequence of odd length is never
// self-complementary).  init and term are identifiable only up to a common shift; the
// normalisation is term('C') = 0.
//
//	pair(CC)  = obs(CCC) - obs(CC)                init     = obs(CC) - pair(CC)
//	pair(YC)  = obs(YCC) - init - pair(CC)        pair(CY) = obs(CYC) - init - pair(YC)
//	term(Y)   = obs(CCY) - init - pair(CC) - pair(CY)
//	pair(XY)  = obs(CXY) - init - term(Y) - pair(CX)
//	sym       = obs(CG)  - init - term(G) - pair(CG)
//
// The same formulas are then evaluated for every other byte 0..127 that strings.ToUpper leaves
// unchanged (SantaLucia upper-cases its argument first), with self-complementarity decided by the
// exported transform.ReverseComplement; whatever the code does there (a value, NaN, a panic) is
// recorded as data or skipped, never an extraction failure: that part is outside the property.

type hs struct{ h, s float64 }

// obs returns the observation and whether it is usable (no panic, finite values).
func obs(seq string) (v hs, ok bool) {
	defer func() {
		if p := recover(); p != nil {
			v, ok = hs{}, false
		}
	}()
	_, dh, ds := primers.SantaLucia(seq, 1.0, 1.0, 0.0)
	if math.IsNaN(dh) || math.IsNaN(ds) || math.IsInf(dh, 0) || math.IsInf(ds, 0) {
		return hs{}, false
	}
	return hs{dh, ds}, true
}

func (a hs) sub(b hs) hs { return hs{a.h - b.h, a.s - b.s} }

func selfComp(seq string) bool {
	u := strings.ToUpper(seq)
	return u == transform.ReverseComplement(u)
}

// tenths rounds a value with one decimal to an integer number of tenths.
func tenths(v float64) (int, error) {
	r := math.Round(v * 10)
	if math.IsNaN(v) || math.Abs(v*10-r) > 1e-9 {
		return 0, fmt.Errorf("value %v is not a multiple of 0.1", v)
	}
	return int(r), nil
}

func pair10(v hs) (int, int, error) {
	h, e1 := tenths(v.h)
	s, e2 := tenths(v.s)
	if e1 != nil {
		return 0, 0, e1
	}
	return h, s, e2
}

func init() {
	extractor.RegisterGen("NNTable", func() (string, error) {
		isBase := func(x byte) bool { return x == 'A' || x == 'C' || x == 'G' || x == 'T' }
		if selfComp("CC") || selfComp("CCG") || !selfComp("CG") {
			return "", fmt.Errorf("probe sequences CC, CCG, CG do not have the expected self-complementarity")
		}
		var sym hs
		// obsAdj: observation with the symmetry term removed when the sequence is self-complementary
		// (never the case for the odd-length A/C/G/T probes)
		obsAdj := func(seq string) (hs, bool) {
			v, ok := obs(seq)
			if ok && selfComp(seq) {
				v = v.sub(sym)
			}
			return v, ok
		}
		must := func(seq string) (hs, error) {
			v, ok := obs(seq)
			if !ok {
				return hs{}, fmt.Errorf("SantaLucia(%q) at 1 M Na gives no finite (dH, dS)", seq)
			}
			return v, nil
		}
		ccc, e1 := must("CCC")
		cc, e2 := must("CC")
		if e1 != nil || e2 != nil {
			return "", fmt.Errorf("%v %v", e1, e2)
		}
		pCC := ccc.sub(cc)
		ini := cc.sub(pCC)
		pairTo := map[byte]hs{'C': pCC}   // pair(YC)
		pairFrom := map[byte]hs{'C': pCC} // pair(CY)
		term := map[byte]hs{'C': {}}
		known := map[byte]bool{'C': true}
		var dom []byte
		for b := 0; b < 128; b++ {
			if strings.ToUpper(string(rune(b))) == string(rune(b)) {
				dom = append(dom, byte(b))
			}
		}
		// per letter Y: pair(YC), pair(CY), term(Y)
		letter := func(y byte) bool {
			ycc, o1 := obsAdj(string([]byte{y, 'C', 'C'}))
			cyc, o2 := obsAdj(string([]byte{'C', y, 'C'}))
			ccy, o3 := obsAdj(string([]byte{'C', 'C', y}))
			if !(o1 && o2 && o3) {
				return false
			}
			pairTo[y] = ycc.sub(ini).sub(pCC)
			pairFrom[y] = cyc.sub(ini).sub(pairTo[y])
			term[y] = ccy.sub(ini).sub(pCC).sub(pairFrom[y])
			known[y] = true
			return true
		}
		for _, y := range []byte("AGT") {
			if !letter(y) {
				return "", fmt.Errorf("no finite observation for the probes of letter %c", y)
			}
		}
		cg, e3 := must("CG")
		if e3 != nil {
			return "", e3
		}
		sym = cg.sub(ini).sub(term['G']).sub(pairFrom['G'])
		for _, y := range dom {
			if !isBase(y) {
				letter(y) // best effort, outside the property
			}
		}
		// pair(XY) = obs(CXY) - init - term(Y) - pair(CX)
		pairOf := func(x, y byte) (hs, bool) {
			if !known[x] || !known[y] {
				return hs{}, false
			}
			v, ok := obsAdj(string([]byte{'C', x, y}))
			if !ok {
				return hs{}, false
			}
			return v.sub(ini).sub(term[y]).sub(pairFrom[x]), true
		}

		var b strings.Builder
		b.WriteString("/- REGENERATED by harness/cmd/extract-primers from primers.SantaLucia evaluated at Na = 1 M, Mg = 0 (where the salt\n" +
			"   term vanishes) on A/C/G/T sequences of length 2 and 3 (inside the property's quantifier): see the formulas in\n" +
			"   harness/cmd/extract-primers/gen.go.  Values are (dH, dS) in TENTHS (dH: 0.1 kcal/mol, dS: 0.1 cal/(mol K)).\n" +
			"   nnInit: initiation; nnSymmetry: self-complementarity term; nnTerminal: last letters with a non-zero terminal term\n" +
			"   (normalised by term('C') = 0); nnRows: letter pairs with a non-zero pair term.  Absent = zero.\n" +
			"   The property quantifies over A/C/G/T only: nnTerminal / nnRows hold the entries over those four letters (the\n" +
			"   theorems use nothing else).  The same probes with any other byte 0..127 (ToUpper-stable) give nnOtherTerminal /\n" +
			"   nnOtherRows, which only the out-of-domain correspondence reads: capped at 64 entries each, nnOther*Count = number of\n" +
			"   non-zero or unobservable (NaN / panic / not a multiple of 0.1) entries; a change of behaviour on non-nucleotide\n" +
			"   input can neither break a proof nor fail the extraction nor blow up this file.  Do not edit. -/\n")
		b.WriteString("namespace PolyVerif.Gen\n\n")
		ih, is, err := pair10(ini)
		if err != nil {
			return "", fmt.Errorf("initiation: %v", err)
		}
		sh, ss, err := pair10(sym)
		if err != nil {
			return "", fmt.Errorf("symmetry: %v", err)
		}
		fmt.Fprintf(&b, "def nnInit : Int × Int := (%d, %d)\n\ndef nnSymmetry : Int × Int := (%d, %d)\n\n", ih, is, sh, ss)
		const otherCap = 64
		var termIn, termOut, rowsIn, rowsOut []string
		nTermOut, nRowsOut := 0, 0
		for _, x := range dom {
			if !known[x] {
				nTermOut++
				continue
			}
			th, ts, err := pair10(term[x])
			if err != nil {
				if isBase(x) {
					return "", fmt.Errorf("terminal %c: %v", x, err)
				}
				known[x] = false
				nTermOut++
				continue
			}
			if th != 0 || ts != 0 {
				e := fmt.Sprintf("\n  (%d, (%d, %d))", x, th, ts)
				if isBase(x) {
					termIn = append(termIn, e)
				} else {
					nTermOut++
					if len(termOut) < otherCap {
						termOut = append(termOut, e)
					}
				}
			}
		}
		for _, x := range dom {
			for _, y := range dom {
				in := isBase(x) && isBase(y)
				t, ok := pairOf(x, y)
				if !ok {
					if in {
						return "", fmt.Errorf("pair %c%c: no finite observation", x, y)
					}
					nRowsOut++
					continue
				}
				th, ts, err := pair10(t)
				if err != nil {
					if in {
						return "", fmt.Errorf("pair %c%c: %v", x, y, err)
					}
					nRowsOut++
					continue
				}
				if th != 0 || ts != 0 {
					e := fmt.Sprintf("\n  ((%d, %d), (%d, %d))", x, y, th, ts)
					if in {
						rowsIn = append(rowsIn, e)
					} else {
						nRowsOut++
						if len(rowsOut) < otherCap {
							rowsOut = append(rowsOut, e)
						}
					}
				}
			}
		}
		fmt.Fprintf(&b, "def nnTerminal : List (Nat × (Int × Int)) := [%s]\n\n", strings.Join(termIn, ","))
		fmt.Fprintf(&b, "def nnRows : List ((Nat × Nat) × (Int × Int)) := [%s]\n\n", strings.Join(rowsIn, ","))
		fmt.Fprintf(&b, "def nnOtherTerminalCount : Nat := %d\n\ndef nnOtherTerminal : List (Nat × (Int × Int)) := [%s]\n\n", nTermOut, strings.Join(termOut, ","))
		fmt.Fprintf(&b, "def nnOtherRowsCount : Nat := %d\n\ndef nnOtherRows : List ((Nat × Nat) × (Int × Int)) := [%s", nRowsOut, strings.Join(rowsOut, ","))
		b.WriteString("]\n\nend PolyVerif.Gen\n")
		return b.String(), nil
	})
}
