// Package extractor regenerates lean/PolyVerif/Gen/*.lean from the behaviour of
// the poly code it is compiled against (the current /repo working tree).
// The extraction is behavioural: it calls exported functions (or reflect) on a
// complete finite domain; it does not read identifiers or source text.
// Usage: extract <outdir>
package extractor

import (
	"fmt"
	"os"
	"path/filepath"
)

type genFile struct {
	name string
	body func() (string, error)
}

var genFiles []genFile

func RegisterGen(name string, body func() (string, error)) {
	genFiles = append(genFiles, genFile{name, body})
}

func Main() {
	outdir := os.Args[1]
	_ = os.MkdirAll(outdir, 0o755)
	only := ""
	if len(os.Args) > 2 {
		only = os.Args[2]
	}
	failed := false
	for _, g := range genFiles {
		if only != "" && only != g.name {
			continue
		}
		text, err := safeBody(g.body)
		path := filepath.Join(outdir, g.name+".lean")
		if err != nil {
			fmt.Printf("EXTRACT-FAIL %s %v\n", g.name, err)
			failed = true
			continue
		}
		old, rerr := os.ReadFile(path)
		if rerr == nil && string(old) == text {
			fmt.Printf("EXTRACT-SAME %s\n", g.name)
			continue
		}
		if werr := os.WriteFile(path, []byte(text), 0o644); werr != nil {
			fmt.Printf("EXTRACT-FAIL %s %v\n", g.name, werr)
			failed = true
			continue
		}
		fmt.Printf("EXTRACT-CHANGED %s\n", g.name)
	}
	if failed {
		os.Exit(1)
	}
}

func safeBody(f func() (string, error)) (s string, err error) {
	defer func() {
		if p := recover(); p != nil {
			err = fmt.Errorf("panic: %v", p)
		}
	}()
	return f()
}
