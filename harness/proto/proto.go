// Package proto implements the TAB-separated, escaped line protocol shared
// with the Lean driver (lean/PolyVerif/Base/Proto.lean) and the Python check.
package proto

import "strings"

var esc = strings.NewReplacer("\\", "\\\\", "\n", "\\n", "\t", "\\t", "\r", "\\r")

// Escape makes a field free of TAB, LF, CR.
func Escape(s string) string { return esc.Replace(s) }

// Unescape inverts Escape.
func Unescape(s string) string {
	if !strings.Contains(s, "\\") {
		return s
	}
	var b strings.Builder
	for i := 0; i < len(s); i++ {
		if s[i] == '\\' && i+1 < len(s) {
			switch s[i+1] {
			case '\\':
				b.WriteByte('\\')
				i++
				continue
			case 'n':
				b.WriteByte('\n')
				i++
				continue
			case 't':
				b.WriteByte('\t')
				i++
				continue
			case 'r':
				b.WriteByte('\r')
				i++
				continue
			}
		}
		b.WriteByte(s[i])
	}
	return b.String()
}

// Fields splits a line into unescaped fields.
func Fields(line string) []string {
	parts := strings.Split(line, "\t")
	for i := range parts {
		parts[i] = Unescape(parts[i])
	}
	return parts
}

// Line joins fields into one escaped line.
func Line(fields ...string) string {
	out := make([]string, len(fields))
	for i, f := range fields {
		out[i] = Escape(f)
	}
	return strings.Join(out, "\t")
}
