"""C17 — De Bruijn barcodes are unique, non-overlapping in n-mers and ban-free.

Cases (see lean/PolyVerif/Driver/C17.lean):
  db  n                                        the sequence itself
  bc  length n nb ban_1..ban_nb nf f_1..f_nf   a barcode call; filters from the named family
                                               homo:k | gc:lo:hi | nostart:X | noend:X | nopal
"""
from common import *
import itertools

RULE = ("db: every order 1..11 (the property's whole range, both tiers) plus order 0 (panic, not judged). "
        "bc / hist: judged on the property's quantifier - orders 2..8, lengths n..60, 0..5 bans over A,C,G,T upper case, "
        "0..3 filters from the named family - with ONE deliberate extension: a ban may have any length >= 2, not only 2..8 "
        "(the laws are proved for every ban list and the repository's own examples ban 11 and 14 letters; bans of 9..20 letters "
        "are generated in both tiers). Anything else is compared with the model but not judged: order 1, lengths > 60, "
        "empty / one-letter / lower-case / IUPAC bans, length < n, order 0. "
        "Generated: history cases first (orders alternated within one process, e.g. 3,2,3; the harness calls the barcode "
        "function BEFORE it fetches the sequence); exhaustive sub-domains (order 2: every pair of 2-letter bans x lengths 2..6; "
        "order 3: every single ban of length 2..3 x lengths 3..8; thorough adds order 2 triples, order 3 pairs, order 4 singles); "
        "orders 6, 7, 8 with EVERY length n..23 (strides 1..18, up to 65529 slots) with adversarial bans and filters in both "
        "tiers, and additionally without bans in the thorough tier (quick: only length n without bans); bans of 9, 11, 14, 20 "
        "letters cut from a window on either strand (quick: orders 4, 6, 8; thorough: 3..8); calls with five bans of which only "
        "the last occurs; then random calls, orders 2..8, lengths n..60, 0..5 bans (15 % of them 9..20 letters), 0..3 filters; half of the random calls are adversarial: each further ban (or its reverse complement) is cut "
        "from the letters that shifting past the previous bans brought into the window, so that avoiding one ban re-introduces "
        "another. non-trivial = a db case of order >= 1, or a judged bc/hist case that is not a ban-less call with <= 1 barcode; "
        "class suffixes: shift-readmit = the code before the fix (checks one after another) would have answered differently; "
        "order7-8-short = order 7 or 8 with stride <= 17. Only the db part is exhaustive over the property's range.")
EXHAUSTIVE = {"quick": False, "thorough": False}
TRUSTED_BASE = ["no native_decide: every C17 theorem is checked by the Lean kernel alone (axioms propext, Classical.choice, Quot.sound)",
                "orders 9, 10, 11: the kernel theorems speak about the text of the tables Gen/DeBruijnCert9/10/11.lean, which harness/cmd/extract-primers "
                "regenerates on every run from primers.NucleobaseDeBruijnSequence(n) of the running code; the packing done by the extractor is "
                "checked on every run by the driver (the unpacked text must equal the real reply and the model's output, else the run is a VIOLATION); "
                "the certificate part of the tables (window value -> position) needs no trust: any function passes or fails the kernel check on its own",
                "filters are modelled as pure functions Str -> Bool; on the protocol they come from a five-member named family implemented twice (Go harness, Lean model); "
                "the Go loop calls every filter on every window even after a ban has rejected it - what a stateful filter would observe is outside the model",
                "Go int arithmetic modelled on Nat/Int without overflow; strings are ASCII",
                "transform.ReverseComplement as modelled for C11 (table regenerated from the code); barcodes_ban_free speaks of that table-driven function, "
                "barcodes_ban_free_spec (through Props/C11 rc_spec, which is re-decided on the regenerated table in every build of Props/C17) and the judge "
                "speak of the independent code-set reverse complement"]
ASSUMPTIONS = ["filter functions are pure and total", "inputs are ASCII", "length and order are non-negative"]
PARTIAL = ["'the generated De Bruijn sequence of order n ... contains every n-letter word exactly once' is proved for n = 1..11, the property's "
           "quantifier, kernel-only, in two ways: n = 1..8 kernel evaluation of the MODEL deBruijn n; n = 9, 10, 11 kernel check of a certificate for the "
           "string the RUNNING CODE returns (extracted table; the model's deBruijn 9/10/11 is tied to it by the run-time three-way comparison, not by a "
           "theorem). The statement for ALL n (the Fredricksen-Kessler-Maiorana theorem) is written in Props/C17.lean as a comment and NOT claimed"]
TECHNIQUE = ("Lean 4: a checker for the de Bruijn property proved sound for every order (pigeonhole on 4^n distinct windows), run by the "
             "kernel on the model of the Lyndon-word construction (orders 1..8); for orders 9, 10, 11 a certificate checker "
             "(window value -> position table regenerated from the running code, one kernel pass, soundness proved for every order); loop invariants of the "
             "barcode loops proved for every order, length, ban list and arbitrary filter functions; differential correspondence, with "
             "the same verified checker and the four laws evaluated on the real output")
LEVEL_TEXT = ("windowsDistinct_sound / checkWith_sound: the checker is sound for every n and every string. db_ok_1..8 (decide +kernel): the model of NucleobaseDeBruijnSequence passes it; generated9/10/11_isDeBruijn "
              "(decide +kernel on certificate tables regenerated from the code, segments_isDeBruijn proved for every order): the strings the running "
              "code returns for orders 9, 10 and 11 are de Bruijn sequences (no native_decide is left); "
              "and on every run the real function's output is compared with the model's for every order 1..11 and fed to the same checker. "
              "barcodes_terminate, barcodes_substrings, barcodes_len, barcodes_no_shared_nmer, barcodes_unique, barcodes_ban_free "
              "(and barcodes_ban_free_spec: the independent reverse complement, via Props/C11 rc_spec), "
              "barcodes_filters hold for every order, every length >= order, every ban list (also empty bans), arbitrary filters, and any "
              "string passing the checker; createBarcodes_laws_le8 (and barcodes_no_shared_nmer_generated for the extracted orders 9..11) instantiate them for the function itself. The loop model is tied "
              "to the code by correspondence (exhaustive small ban sets, random and adversarial ban sets incl. bans of 9..20 letters, every stride 1..18 at orders 6..8 with adversarial bans "
              "(both tiers; without bans: stride 1 in quick, every stride in thorough), "
              "histories of calls with alternating orders, out-of-domain panics); the driver evaluates the model through an executable "
              "twin proved equal to it (barcodesOnFast_eq).")
LEVEL_NOTE = ("Trusted: Lean kernel only (orders 9..11 are kernel-checked on tables extracted from the running code; the extractor's packing is "
              "re-checked against the real reply on every run); harness and generators; purity of filters; "
              "ASCII strings; no integer overflow. Empty, one-letter, lower-case and IUPAC bans, order 1 and lengths > 60 are "
              "compared with the model but not claimed.")
HARNESS_BIN = "run-primers"
EXTRACT_BINS = ["extract-seq", "extract-primers"]
PROOF_MODULES = ["PolyVerif.Props.C17", "PolyVerif.Props.C17Big", "PolyVerif.Props.C17Cert", "PolyVerif.Props.C17Cert10",
                 "PolyVerif.Props.C17Cert11a", "PolyVerif.Props.C17Cert11b", "PolyVerif.Props.C17Cert11c", "PolyVerif.Props.C17Cert11"]
NATIVE_MODULES = []
TIMEOUT_MS = 30000

_RC = str.maketrans("ATGC", "TACG")


def rc(s):
    return s[::-1].translate(_RC)


_DB = {}


def debruijn(n):
    """the FKM construction, written independently of both the Go code and the Lean model (used only to aim bans)"""
    if n in _DB:
        return _DB[n]
    import sys
    sys.setrecursionlimit(10000)
    k, a, seq = 4, [0] * (4 * n + 1), []

    def go(t, p):
        if t > n:
            if n % p == 0:
                seq.extend(a[1:p + 1])
        else:
            a[t] = a[t - p]
            go(t + 1, p)
            for j in range(a[t - p] + 1, k):
                a[t] = j
                go(t + 1, t)
    go(1, 1)
    s = "".join("ATGC"[i] for i in seq)
    _DB[n] = s + s[:n - 1]
    return _DB[n]


def bc(length, n, bans=(), filters=()):
    return ["bc", str(length), str(n), str(len(bans))] + list(bans) + [str(len(filters))] + list(filters)


def rand_filter(r, length):
    t = r.randrange(6)
    if t == 0:
        return "homo:%d" % r.randint(2, 4)
    if t == 1:
        lo = r.randint(0, max(0, length // 2))
        return "gc:%d:%d" % (lo, r.randint(lo, length))
    if t == 2:
        return "nostart:" + r.choice("ATGC")
    if t == 3:
        return "noend:" + r.choice("ATGC")
    if t == 4:
        return "nopal"
    return "gc:%d:%d" % (length // 3, length - length // 3)


def hits(w, bans):
    return any(b in w or rc(b) in w for b in bans)


def adversarial_bans(r, db, length, n, count):
    """each further ban is taken from what the shift past the earlier ones brought into the window"""
    stride = length - n + 1
    nwin = max(1, (len(db) - length) // stride)
    p = stride * r.randrange(min(nwin, 6))
    bans = []
    q = p
    for _ in range(count):
        if q + length > len(db):
            break
        w = db[q:q + length]
        bl = r.randint(2, min(8, length)) if r.random() < 0.85 else r.randint(min(9, length), min(20, length))
        # prefer the end of the window: the shift must then move far, and re-admits letters
        at = r.randint(max(0, length - bl - 2), length - bl) if r.random() < 0.7 else r.randint(0, length - bl)
        piece = w[at:at + bl]
        bans.append(piece if r.random() < 0.5 else rc(piece))
        while q + length <= len(db) and hits(db[q:q + length], bans):
            q += 1
    r.shuffle(bans)
    return bans


def cases(seed, tier):
    r = rng(seed, "C17")
    thorough = tier == "thorough"
    # ---- pinned by the repository's examples
    yield bc(20, 4)
    yield bc(20, 4, ["CTCTCGGTCGCTCC"])
    yield bc(20, 4, ["GGCCGCGCCCC"])
    yield bc(20, 4, [rc("GGCCGCGCCCC")])
    # ---- histories: orders alternated within ONE process (a memoised sequence read under the wrong order would show)
    def hist(calls):
        out = ["hist", str(len(calls))]
        for c in calls:
            out += [str(len(c) - 1)] + c[1:]
        return out
    yield hist([bc(5, 3), bc(4, 2), bc(5, 3)])
    yield hist([bc(3, 2, ["CC"]), bc(6, 3, ["AT"], ["homo:3"]), bc(3, 2, ["CC"]), bc(6, 3, ["AT"], ["homo:3"])])
    yield hist([bc(8, 4), bc(8, 3), bc(8, 5), bc(8, 4), bc(8, 3), bc(8, 5)])
    for _ in range(20 if thorough else 4):
        orders = [r.randint(2, 6) for _ in range(r.randint(3, 6))]
        orders += orders[:2]                                   # come back to orders already used
        calls = []
        for n in orders:
            length = r.randint(n, min(60, n + 12))
            bans = adversarial_bans(r, debruijn(n), length, n, r.choice([0, 1, 2])) if length + 1 < len(debruijn(n)) else []
            calls.append(bc(length, n, bans, [rand_filter(r, length)] if r.random() < 0.3 else []))
        yield hist(calls)
    # ---- orders 6, 7, 8 with short lengths (strides 1..17: thousands of slots, large positions)
    for n in (6, 7, 8):
        db = debruijn(n)
        yield bc(n, n)                                          # stride 1: 4^n - n + 1 ... slots
        yield bc(n + 1, n, adversarial_bans(r, db, n + 1, n, 3))
        yield bc(23, n, adversarial_bans(r, db, 23, n, 4), [rand_filter(r, 23) for _ in range(3)])
        for length in range(n, 24):                              # every stride 1..24-n, both tiers
            yield bc(length, n, adversarial_bans(r, db, length, n, r.randint(1, 5)),
                     [rand_filter(r, length) for _ in range(r.choice([0, 0, 1, 2]))])
            if thorough:
                yield bc(length, n)
    # ---- one ban of exactly n letters cut from INSIDE a chosen window of the ban-less run: the first window, the last
    # window (for order 8 it ends beyond offset 65535 = 2^16 - 1: positions kept in 16 bits wrap there, seeded change C17-m)
    # and, for order 8, the window that straddles offset 65536; either strand
    for n in (6, 7, 8):
        db = debruijn(n)
        for length in sorted(set([n + 1, 15, 16, 17, 20, 22, 23, 30] + ([n + 2, 18, 19, 21, 25, 40, 60] if thorough else []))):
            if length < n + 1: continue
            stride = length - (n - 1)
            last = ((len(db) - length) // stride) * stride
            starts = [0, last] + ([(65536 - length // 2) // stride * stride] if n == 8 else [])
            for st in starts:
                w = db[st:st + length]
                off = r.randrange(0, length - n + 1)
                ban = w[off:off + n]
                yield bc(length, n, [ban if r.random() < 0.5 else rc(ban)])
    # ---- bans longer than 8 letters (the repository's own examples ban 11 and 14 letters): cut from a window, either strand
    for n in ((3, 4, 5, 6, 7, 8) if thorough else (4, 6, 8)):
        db = debruijn(n)
        for bl in (9, 11, 14, 20):
            length = r.randint(max(n, bl), 60)
            if length + 1 >= len(db):
                continue
            stride = length - n + 1
            p = stride * r.randrange(3) + r.randint(0, length - bl)
            if p + bl > len(db):
                p = r.randint(0, length - bl)
            w = db[p:p + bl]
            yield bc(length, n, [w if r.random() < 0.5 else rc(w)])
            yield bc(length, n, [rc(w), randword(r, "ATGC", bl), db[p + 1:p + 3]], [rand_filter(r, length)])
    # ---- five bans of which only the last one occurs anywhere (a limit on the number of bans honoured would show)
    for n in ((3, 4, 5, 6) if thorough else (3, 5)):
        db = debruijn(n)
        length = r.randint(n + 1, 20)
        absent = []
        while len(absent) < 4:
            w = randword(r, "ATGC", 8)
            if w not in db and rc(w) not in db:
                absent.append(w)
        at = r.randrange(0, min(len(db) - 3, 40))
        yield bc(length, n, absent + [db[at:at + r.randint(2, 3)]])
    # ---- exhaustive small domains
    two = ["".join(t) for t in itertools.product("ATGC", repeat=2)]
    three = ["".join(t) for t in itertools.product("ATGC", repeat=3)]
    four = ["".join(t) for t in itertools.product("ATGC", repeat=4)]
    for length in range(2, 7):
        for a in two:
            for b in two:
                yield bc(length, 2, [a, b])
    for length in range(3, 9):
        for a in two + three:
            yield bc(length, 3, [a])
    if thorough:
        for length in range(2, 6):
            for a in two:
                for b in two:
                    for c in two:
                        yield bc(length, 2, [a, b, c])
        for length in range(3, 8):
            for a in two:
                for b in two:
                    yield bc(length, 3, [a, b])
        for length in range(4, 10):
            for a in two + three + four:
                yield bc(length, 4, [a])
    # every single filter of the family on small orders
    for n in (2, 3, 4):
        for length in range(n, n + 5):
            for f in ["homo:2", "homo:3", "gc:0:1", "gc:2:3", "gc:%d:%d" % (length, length), "nostart:A", "nostart:G",
                      "noend:C", "noend:T", "nopal", "gc:99:99", "homo:1", "homo:0", "other"]:
                yield bc(length, n, [], [f])
    # ---- random and adversarial calls
    N = 6000 if thorough else 800
    for i in range(N):
        n = r.choice([2, 2, 3, 3, 3, 4, 4, 4, 5, 5, 5, 6, 6, 7, 8] if thorough or i % 3 else [2, 3, 4, 5, 6])
        db = debruijn(n)
        if n >= 7 and not thorough and r.random() < 0.8:
            length = r.randint(24, 60)             # replies at orders 7-8 with small strides are 0.1-0.6 MB each: mostly fixed cases above
        else:
            length = r.choice([n, n, n + 1, n + 2]) if r.random() < 0.25 else r.randint(n, 60)
        if length + 1 >= len(db) and r.random() < 0.7:
            length = r.randint(n, max(n, len(db) - 2))   # (otherwise: no room for a single barcode, the call returns nothing)
        nb = r.choice([0, 1, 1, 2, 2, 3, 3, 4, 5])
        if i % 2 == 0:
            bans = adversarial_bans(r, db, length, n, nb)
        else:
            bans = []
            for _ in range(nb):
                bl = r.randint(2, 8) if r.random() < 0.85 else r.randint(9, 20)
                if r.random() < 0.6 and bl <= len(db):
                    at = r.randrange(len(db) - bl + 1)
                    b = db[at:at + bl]
                    bans.append(b if r.random() < 0.5 else rc(b))
                else:
                    bans.append(randword(r, "ATGC", bl))
        nf = r.choice([0, 0, 0, 1, 1, 2, 3])
        filters = [rand_filter(r, length) for _ in range(nf)]
        if n >= 7:
            filters = [f for f in filters if not f.startswith("gc:")] if r.random() < 0.5 else filters
        yield bc(length, n, bans, filters)
    # ---- edges of the domain
    for n in range(1, 7):
        yield bc(n, n)                      # stride 1
        yield bc(n, n, ["AT"])
        yield bc(n + 1, n, ["GC", "TT"], ["homo:3"])
        yield bc(60, n)
    for length in (1, 2, 3, 4, 5):
        yield bc(length, 1)                 # order 1: db = ATGC
        yield bc(length, 1, ["A"])
        yield bc(length, 1, ["TG"], ["nostart:A"])
    for n in (2, 3, 4, 5):
        db = debruijn(n)
        for length in (len(db) - 2, len(db) - 1, len(db), len(db) + 1):   # around "no room for a single barcode"
            yield bc(length, n)
            yield bc(length, n, ["AA"])
    # ---- outside the property's domain (correspondence only)
    for n in (2, 3, 4):
        for length in range(0, n):
            if length != n - 1:              # length = n-1 is a zero stride: the Go loop never ends unless the
                yield bc(length, n)          # first window is rejected up to the end of the sequence
                yield bc(length, n, ["A"])
            yield bc(length, n, [""])        # strings.Contains(x, "") is true: shifts to the end, returns nothing
        yield bc(n + 3, n, [""])
        yield bc(n + 3, n, ["", "AT"])
        yield bc(n + 3, n, ["at"])
        yield bc(n + 3, n, ["AN"])
        yield bc(n + 3, n, ["A-T"])
    yield bc(5, 0)
    yield bc(0, 0)
    # ---- the sequence itself: the property's whole range (last, so that no barcode call above runs in a
    # process in which the harness has already asked for every order's sequence)
    for n in range(0, 12):
        yield ["db", str(n)]

# the same requests executed 8 at a time in concurrent goroutines (check: PARALLEL / harness: VERIF_PAR)
PARALLEL = {"quick": {"par": 8, "max_cases": 1500}, "thorough": {"par": 8, "max_cases": 40000, "race": True}}
