"""C18 — adding and compromising codon tables."""
from common import *
import struct, math, itertools

# amino-acid strings of the 25 NCBI codes in TCAG order.  Used ONLY to steer the generator towards sequences in
# which every amino acid occurs; whether a case is in the property's domain is decided by the Lean driver on the
# tables the harness reports, so a wrong entry here could only waste cases.
CODES = {
 1: "FFLLSSSSYY**CC*WLLLLPPPPHHQQRRRRIIIMTTTTNNKKSSRRVVVVAAAADDEEGGGG",
 2: "FFLLSSSSYY**CCWWLLLLPPPPHHQQRRRRIIMMTTTTNNKKSS**VVVVAAAADDEEGGGG",
 3: "FFLLSSSSYY**CCWWTTTTPPPPHHQQRRRRIIMMTTTTNNKKSSRRVVVVAAAADDEEGGGG",
 4: "FFLLSSSSYY**CCWWLLLLPPPPHHQQRRRRIIIMTTTTNNKKSSRRVVVVAAAADDEEGGGG",
 5: "FFLLSSSSYY**CCWWLLLLPPPPHHQQRRRRIIMMTTTTNNKKSSSSVVVVAAAADDEEGGGG",
 6: "FFLLSSSSYYQQCC*WLLLLPPPPHHQQRRRRIIIMTTTTNNKKSSRRVVVVAAAADDEEGGGG",
 9: "FFLLSSSSYY**CCWWLLLLPPPPHHQQRRRRIIIMTTTTNNNKSSSSVVVVAAAADDEEGGGG",
 10: "FFLLSSSSYY**CCCWLLLLPPPPHHQQRRRRIIIMTTTTNNKKSSRRVVVVAAAADDEEGGGG",
 11: "FFLLSSSSYY**CC*WLLLLPPPPHHQQRRRRIIIMTTTTNNKKSSRRVVVVAAAADDEEGGGG",
 12: "FFLLSSSSYY**CC*WLLLSPPPPHHQQRRRRIIIMTTTTNNKKSSRRVVVVAAAADDEEGGGG",
 13: "FFLLSSSSYY**CCWWLLLLPPPPHHQQRRRRIIMMTTTTNNKKSSGGVVVVAAAADDEEGGGG",
 14: "FFLLSSSSYYY*CCWWLLLLPPPPHHQQRRRRIIIMTTTTNNNKSSSSVVVVAAAADDEEGGGG",
 16: "FFLLSSSSYY*LCC*WLLLLPPPPHHQQRRRRIIIMTTTTNNKKSSRRVVVVAAAADDEEGGGG",
 21: "FFLLSSSSYY**CCWWLLLLPPPPHHQQRRRRIIMMTTTTNNNKSSSSVVVVAAAADDEEGGGG",
 22: "FFLLSS*SYY*LCC*WLLLLPPPPHHQQRRRRIIIMTTTTNNKKSSRRVVVVAAAADDEEGGGG",
 23: "FF*LSSSSYY**CC*WLLLLPPPPHHQQRRRRIIIMTTTTNNKKSSRRVVVVAAAADDEEGGGG",
 24: "FFLLSSSSYY**CCWWLLLLPPPPHHQQRRRRIIIMTTTTNNKKSSSKVVVVAAAADDEEGGGG",
 25: "FFLLSSSSYY**CCGWLLLLPPPPHHQQRRRRIIIMTTTTNNKKSSRRVVVVAAAADDEEGGGG",
 26: "FFLLSSSSYY**CC*WLLLAPPPPHHQQRRRRIIIMTTTTNNKKSSRRVVVVAAAADDEEGGGG",
 27: "FFLLSSSSYYQQCCWWLLLLPPPPHHQQRRRRIIIMTTTTNNKKSSRRVVVVAAAADDEEGGGG",
 28: "FFLLSSSSYYQQCCWWLLLLPPPPHHQQRRRRIIIMTTTTNNKKSSRRVVVVAAAADDEEGGGG",
 29: "FFLLSSSSYYYYCC*WLLLLPPPPHHQQRRRRIIIMTTTTNNKKSSRRVVVVAAAADDEEGGGG",
 30: "FFLLSSSSYYEECC*WLLLLPPPPHHQQRRRRIIIMTTTTNNKKSSRRVVVVAAAADDEEGGGG",
 31: "FFLLSSSSYYEECCWWLLLLPPPPHHQQRRRRIIIMTTTTNNKKSSRRVVVVAAAADDEEGGGG",
 33: "FFLLSSSSYYY*CCWWLLLLPPPPHHQQRRRRIIIMTTTTNNNKSSSKVVVVAAAADDEEGGGG",
}
CODONS = ["".join(p) for p in itertools.product("TCAG", repeat=3)]

RULE = ("reuse: ONE Table value re-weighted in place between two rounds of AddCodonTable / CompromiseCodonTable (both argument "
        "positions), each round judged as a pair on the table's current value.  pair: two tables re-weighted (after a deep copy) from random coding sequences in which every amino acid of the "
        "code occurs, over all 25 codes; per pair 12-16 cut-offs: a grid over [-1,2], 0 and 1 and their float neighbours, "
        "realised usage shares of both tables and their +/-1 ulp neighbours, tiny and huge values; AddCodonTable and "
        "CompromiseCodonTable both ways, Optimize on the compromise.  Outside the judged domain (correspondence only): "
        "tables from different codes (index panic), amino acids that do not occur (NaN shares), literal tables with "
        "duplicate / missing triplets, empty tables, NaN / Inf cut-offs (Go rejects +/-Inf, lets NaN through; outside [-1,2], "
        "not judged).  An operand that is not the re-weighted regenerated table is a failure whatever its domain.  "
        "non-trivial = in-domain pair; distinct by case text")
EXHAUSTIVE = {"quick": False, "thorough": False}
TRUSTED_BASE = ["Lean Float = IEEE binary64 with the same + - * / and conversions as Go on amd64 (correspondence model); the judge "
                "does not use it: its float64 reading is an independent round-to-nearest-even over Nat (checked equal to Lean Float "
                "on 3*10^5 random shares / cut-offs when written, and on every run by the bit-exact correspondence)",
                "harness deep-copies every operand (table text round trip) before re-weighting and combining (C08 aliasing)"]
ASSUMPTIONS = ["weights and sums below 2^53",
               "StartCodons / StopCodons of the table returned by AddCodonTable / CompromiseCodonTable share their backing array "
               "with the FIRST operand (c.StartCodons = firstCodonTable.StartCodons; Go probe: writing s.StartCodons[0] of the "
               "result changes the operand). OUTSIDE the property: its clauses speak about what calls of the package return and "
               "about re-weightings leaking between calls; no function of package codon writes a StartCodons / StopCodons "
               "element, so no sequence of package calls can observe this sharing - only a caller that assigns into the returned "
               "slices does. The models carry both lists as immutable values accordingly (Model/CodonTables.lean, heap model)",
               "pairs outside the property (different codes, empty / malformed tables, an amino acid that never occurs, negative "
               "weights): only the rejection of out-of-range cut-offs is judged and corresponded; everything else such a pair "
               "returns is drift (class suffix /outside-drift)",
               "cut-offs that are NaN or +/-Inf are outside the quantifier ([-1,2]): correspondence only, not judged", "amd64: int(NaN) = -2^63 (only reachable outside the judged domain)",
               "inputs are ASCII"]
PARTIAL = ["the numeric clauses are theorems for TWO readings: exact arithmetic (Props/C18: compromise_weight, _mean, _zero_below, "
           "_never_rare, _symm; rational cut-off, shares floor(10000 w/total)) and float64 arithmetic as the code computes it "
           "(Props/C18F64: compromise_weight_f64, _zero_below_f64, _mean_f64, _positive_f64, _symm_f64, compromise_never_rare_f64), "
           "tied by the proved BRIDGE shareF64_bounds (float64 share = exact share or one less, totals <= 2^38) and cutF64_bounds "
           "(|int(10000c) - 10000c| <= 10000c 2^-53 + 1). What stays UNPROVED and is checked on every case instead: that the real "
           "code computes exactly `compromise f64Arith` - the float64 semantics in the theorems is the Nat-level model rne (IEEE "
           "binary64 round-to-nearest-even; Lean's Float is opaque to the kernel), corresponded bit for bit with Go (driver corr: "
           "implementation == f64Arith instance == Lean Float instance); f64Arith.mean is (a+b)/2 truncated, i.e. float64 adds and "
           "halves integers up to 20000 exactly (not derived from rne)",
           "compromise_symm_any's hypothesis (commutative mean) is discharged for f64Arith (compromise_symm_f64) but cannot be "
           "for Lean's opaque Float instance",
           "the last clause: exact reading on the truncated scale (floor(10000c) <= floor(10000 share)); float64 reading stated "
           "exactly: a codon with positive weight has real share > c(1-2^-53) - 1/10000 in both tables "
           "(compromise_never_rare_f64); optimize_compromise_never_rare_model links the exact reading to C07's model of "
           "codon.Optimize (Emits); the real chooser's draws are C07's correspondence, the judge checks the clause on the real "
           "Optimize output",
           "judge: no tolerance band; a weight must equal one of three named readings of the statement that can differ by "
           "rounding only: (a) float64 (rne / shareF64 / cutF64), (b) exact arithmetic truncated before comparing, (c) exact "
           "arithmetic compared before truncation; classes ending in 'fx' count the cases where (a) and (b) differ"]
PROOF_MODULES = ["PolyVerif.Props.C18", "PolyVerif.Props.C18Optimize", "PolyVerif.Props.C18F64"]
TIMEOUT_MS = 30000


def bits(x):
    return str(struct.unpack("<Q", struct.pack("<d", x))[0])


def coding_all(r, code, n_extra, skew, drop):
    """sequence in which every amino acid of `code` occurs; `drop` = fraction of synonymous codons never used"""
    by = {}
    for c, a in zip(CODONS, code):
        by.setdefault(a, []).append(c)
    use = []
    for a, cs in by.items():
        keep = [c for c in cs if r.random() >= drop] or [r.choice(cs)]
        use += keep
    w = [r.random() ** skew + 1e-3 for _ in use]
    body = list(use) + r.choices(use, weights=w, k=n_extra)
    r.shuffle(body)
    s = "".join(body)
    return randcase(r, s) if r.random() < 0.3 else s


def counts(seq):
    s = seq.upper()
    d = {}
    for i in range(0, len(s) - 2, 3):
        d[s[i:i + 3]] = d.get(s[i:i + 3], 0) + 1
    return d


def shares(code, seq):
    cnt = counts(seq)
    tot = {}
    for c, a in zip(CODONS, code):
        tot[a] = tot.get(a, 0) + cnt.get(c, 0)
    out = []
    for c, a in zip(CODONS, code):
        if tot[a] > 0:
            out.append(cnt.get(c, 0) / tot[a])
    return out


def ulps(x):
    return [math.nextafter(x, -math.inf), x, math.nextafter(x, math.inf)]


def cut_list(r, sh1, sh2):
    cs = [0.0, 1.0, r.choice([-1.0, -0.5, -0.25]), r.choice([1.25, 1.5, 2.0]), r.choice([0.25, 0.5, 0.75, 0.1, 0.2, 0.3]),
          r.choice([0.05, 0.01, 0.02, 0.001])]
    cs += r.sample(ulps(0.0) + [-0.0, 5e-324, -5e-324, 1e-5, 0.0001, 0.00009999], 3)
    cs += r.sample(ulps(1.0) + [0.9999, 0.99999999], 2)
    low = [x for x in sh1 + sh2 if 0 < x < 1]
    if low:
        cs.append(min(low))            # the largest cut-off at which nothing is zeroed: Optimize can still encode everything
        cs.append(min(low) / 2)
    for sh in (sh1, sh2):
        pos = [x for x in sh if 0 < x < 1] or [0.5]
        x = r.choice(pos)
        cs += ulps(x)
        y = r.choice(pos)
        cs.append(round(y * 10000) / 10000)            # k/10000: 10000*c lands on / next to an integer
        cs.append(math.floor(y * 10000) / 10000)
    cs.append(r.uniform(-1, 2))
    return cs


def raw_table(r, code, maxw, starts, stops, zero_frac=0.1):
    """literal table over `code`: amino acids and codons in random order, weights up to maxw, every amino acid occurs"""
    by = {}
    for c, a in zip(CODONS, code):
        by.setdefault(a, []).append(c)
    aas = list(by.items())
    r.shuffle(aas)
    parts = []
    for a, cs in aas:
        cs = list(cs); r.shuffle(cs)
        ws = [0 if r.random() < zero_frac else r.randint(1, maxw) for _ in cs]
        if sum(ws) == 0:
            ws[r.randrange(len(ws))] = r.randint(1, maxw)
        if r.random() < 0.15:                      # shares that are exact integers on the 10000 scale
            base = r.choice([1, 3, 7, 125, 10 ** 5])
            ws = [base * r.choice([0, 1, 1, 2, 3, 4, 5]) for _ in cs]
            if sum(ws) == 0: ws[0] = base
        parts.append("%s:%s" % (a, ",".join("%s=%d" % (c, w) for c, w in zip(cs, ws))))
    return "%s/%s/%s" % (",".join(starts), ",".join(stops), ";".join(parts))


def raw_shares(text):
    out = []
    for aa in text.split("/")[2].split(";"):
        ws = [int(x.split("=")[1]) for x in aa.split(":")[1].split(",")]
        out += [w / sum(ws) for w in ws]
    return out


SAME_CODE_IDS = [(1, 11), (11, 1), (27, 28), (28, 27)]


def protein(r, n):
    return randword(r, "ACDEFGHIKLMNPQRSTVWY", n) + ("*" if r.random() < 0.5 else "")


RAW = [
    # duplicate triplet in the second table; missing triplet (index panic); empty tables; zero totals; negative weight
    ("TTG/TAA/F:TTT=3,TTC=1;L:TTA=2,TTG=2", "TTG/TAA/F:TTT=1,TTC=3;L:TTA=4,TTG=0"),
    ("TTG/TAA/F:TTT=3,TTC=1;L:TTA=2,TTG=2", "TTG/TAA/L:TTG=1,TTA=3;F:TTC=5,TTT=5"),
    ("TTG/TAA/F:TTT=3,TTC=1", "TTG/TAA/F:TTT=1,TTT=2,TTC=3"),
    ("TTG/TAA/F:TTT=3,TTC=1", "TTG/TAA/F:TTT=1"),
    ("TTG/TAA/F:TTT=3,TTC=1", "TTG/TAA/L:TTT=1,TTC=2"),
    ("TTG/TAA/F:TTT=0,TTC=0", "TTG/TAA/F:TTT=1,TTC=2"),
    ("TTG/TAA/F:TTT=3,TTC=1", "TTG/TAA/F:TTT=0,TTC=0"),
    ("//", "//"),
    ("TTG/TAA/F:TTT=3,TTC=1", "//"),
    ("//", "TTG/TAA/F:TTT=3,TTC=1"),
    ("TTG/TAA/F:TTT=-3,TTC=1", "TTG/TAA/F:TTT=1,TTC=2"),
    ("ATG/TGA/F:TTT=1,TTC=2;M:ATG=7", "GTG,ATG/TAA,TAG/F:TTT=2,TTC=1;M:ATG=1"),
    ("TTG/TAA/F:TTT=1,TTC=2,TTA=0", "TTG/TAA/F:TTT=3333,TTC=3333,TTA=3334"),
    ("TTG/TAA/F:TTT=1,TTC=1,TTA=1", "TTG/TAA/F:TTT=1,TTC=1,TTA=1"),
    ("TTG/TAA/F:TTT=1,TTC=2", "TTG/TAA/F:TTT=2,TTC=1;F:TTT=5,TTC=5"),
    # shares exactly 0 / 5000 / 10000 at cut-offs 0, 0.5 and 1: the comparison at the cut-off must be strict
    ("ATG/TAA/F:TTT=1,TTC=1;M:ATG=5;L:TTA=0,TTG=3", "ATG/TAA/F:TTT=0,TTC=4;M:ATG=1;L:TTG=2,TTA=2"),
    ("ATG/TAA/F:TTT=2,TTC=2;M:ATG=1", "GTG/TGA/M:ATG=9;F:TTC=7,TTT=7"),
    ("ATG/TAA/F:TTT=0,TTC=6;W:TGG=2", "ATG/TAA/F:TTT=0,TTC=1;W:TGG=8"),
    ("ATG/TAA/F:TTT=3,TTC=7;L:TTA=1,TTG=1,CTT=2", "ATG/TAA/F:TTT=3,TTC=7;L:TTA=2,TTG=1,CTT=1"),
]


def cases(seed, tier):
    r = rng(seed, "C18")
    ids = sorted(CODES)
    special = ",".join(bits(x) for x in [-1.0, -0.5, 0.0, 0.1, 0.25, 0.3, 1 / 3, 0.5, 2 / 3, 0.75, 1.0, 1.5, 2.0,
                                           float("nan"), float("inf"), -float("inf"), 5e-324, 0.0001, 0.3333])
    for (a, b) in RAW:
        yield ["pair", "raw:" + a, "raw:" + b, special, "FFLMW"[:3] if "M:" not in a else "FMFL"]
        yield ["pair", "raw:" + a, "raw:" + b, ",".join(bits(x) for x in [0.0, 1.0, 0.5, 0.25, 0.3, 0.7, 0.1]), "FM" if "M:" in a else "FF"]
    reps = 16 if tier == "quick" else 100
    for rep in range(reps):
        for d in ids:
            code = CODES[d]
            n1 = r.choice([0, 10, 100, 1000, 5000])
            n2 = r.choice([0, 10, 100, 1000, 5000])
            s1 = coding_all(r, code, n1, r.choice([1, 3, 6]), r.choice([0, 0, 0.2, 0.5]))
            s2 = coding_all(r, code, n2, r.choice([1, 3, 6]), r.choice([0, 0, 0.2, 0.5]))
            cs = cut_list(r, shares(code, s1), shares(code, s2))
            yield ["pair", "id:%d:%s" % (d, s1), "id:%d:%s" % (d, s2), ",".join(bits(c) for c in cs), protein(r, r.randint(1, 40))]
        # operands from DIFFERENT default ids over the same code: different start codons, and (built from separate
        # Go maps) different amino-acid order
        for (d1, d2) in SAME_CODE_IDS:
            code = CODES[d1]
            s1 = coding_all(r, code, r.choice([0, 100, 3000]), r.choice([1, 3, 6]), r.choice([0, 0.2, 0.5]))
            s2 = coding_all(r, code, r.choice([0, 100, 3000]), r.choice([1, 3, 6]), r.choice([0, 0.2, 0.5]))
            cs = cut_list(r, shares(code, s1), shares(code, s2))
            yield ["pair", "id:%d:%s" % (d1, s1), "id:%d:%s" % (d2, s2), ",".join(bits(c) for c in cs), protein(r, r.randint(1, 40))]
        # literal tables: random order of amino acids and of codons, different start / stop lists, weights up to 10^6
        for _ in range(6):
            d = r.choice(ids)
            code = CODES[d]
            mw = r.choice([5, 100, 10 ** 4, 10 ** 6, 10 ** 6])
            a = raw_table(r, code, mw, ["ATG", "GTG"], ["TAA"])
            b = raw_table(r, code, r.choice([5, 10 ** 6]), ["TTG"], ["TGA", "TAG"])
            cs = cut_list(r, raw_shares(a), raw_shares(b))
            yield ["pair", "raw:" + a, "raw:" + b, ",".join(bits(c) for c in cs), protein(r, r.randint(1, 40))]
    # ONE Table value used in two rounds of add / compromise (both argument positions) with an in-place re-weighting
    # between them: a result may depend on the arguments' current values only
    for _ in range(12 if tier == "quick" else 80):
        d = r.choice(ids)
        code = CODES[d]
        sa = coding_all(r, code, r.choice([0, 100, 1000]), r.choice([1, 3, 6]), r.choice([0, 0.2, 0.5]))
        sb = coding_all(r, code, r.choice([0, 100, 1000]), r.choice([1, 3, 6]), r.choice([0, 0.2, 0.5]))
        su = coding_all(r, code, r.choice([0, 100, 1000]), r.choice([1, 3, 6]), r.choice([0, 0.2]))
        d2 = d
        for (x, y) in SAME_CODE_IDS:
            if x == d and r.random() < 0.5: d2 = y
        cs = cut_list(r, shares(code, sb), shares(code, su))[:8]
        yield ["reuse", "id:%d:%s" % (d, sa), sb, "id:%d:%s" % (d2, su), ",".join(bits(c) for c in cs), protein(r, r.randint(1, 20))]
    # a few genome-sized sequences (weights of 10^4..10^5 from the real re-weighting path)
    for _ in range(2 if tier == "quick" else 12):
        d = r.choice(ids)
        code = CODES[d]
        s1 = coding_all(r, code, 30000, 3, 0)
        s2 = coding_all(r, code, 30000, 6, 0.2)
        cs = cut_list(r, shares(code, s1), shares(code, s2))
        yield ["pair", "id:%d:%s" % (d, s1), "id:%d:%s" % (d, s2), ",".join(bits(c) for c in cs), protein(r, 30)]
    # outside the domain: different codes (panic path or silently misaligned), amino acids missing (NaN shares)
    for _ in range(30 if tier == "quick" else 300):
        d1, d2 = r.choice(ids), r.choice(ids)
        s1 = coding_all(r, CODES[d1], r.choice([0, 30, 300]), 3, 0.3)
        s2 = coding_all(r, CODES[d2], r.choice([0, 30, 300]), 3, 0.3)
        if r.random() < 0.5:
            s1 = randword(r, "ACGT", r.choice([0, 3, 9, 30, 90]))
        # in-range cut-offs: correspondence drift only; out-of-range cut-offs alone: the rejection clause is judged
        cs = [r.choice([0.0, 0.1, 0.5, 1.0, 5e-324]) for _ in range(4)]
        yield ["pair", "id:%d:%s" % (d1, s1), "id:%d:%s" % (d2, s2), ",".join(bits(c) for c in cs), protein(r, 10)]
        cs = [r.choice([-0.1, 1.1, -5e-324, 2.0, -1.0]) for _ in range(3)]
        yield ["pair", "id:%d:%s" % (d1, s1), "id:%d:%s" % (d2, s2), ",".join(bits(c) for c in cs), protein(r, 10)]


TECHNIQUE = ("Lean 4 proof over an exact-rational model of AddCodonTable / CompromiseCodonTable (written once over an "
             "arithmetic record, instantiated exact and float64); differential correspondence against the float64 instance")
LEVEL_TEXT = ("float64 reading (Props/C18F64): shareF64_bounds, cutF64_bounds (bridge), compromise_weight_f64, _zero_below_f64, "
              "_mean_f64, _symm_f64, compromise_never_rare_f64 over the Nat-level binary64 model; exact reading: add_sums, add_keeps_code, compromise_mean, compromise_zero_below, compromise_symm, compromise_rejects, "
              "compromise_keeps_code, compromise_never_rare are kernel-checked for all pairs of well-formed tables over the same "
              "code (any order of amino acids and codons in the second table) and all rational cut-offs; the implementation is "
              "compared bit-exactly with the float64 instance of the same model and judged by the exact spec within +/-1.")
LEVEL_NOTE = "Trusted: Lean kernel; Lean Float = Go float64 on amd64; harness deep copies; ASCII."

HARNESS_BIN = "run-codon"
EXTRACT_BINS = ["extract-codon"]
