"""C18 — adding and compromising codon tables."""
from common import *
import struct, math, itertools

# amino-acid strings of the 25 NCBI codes in TCAG order.  Used ONLY to steer the generator towards sequences in
# which every amino acid occurs; whether a case is in the property's domain is decided by the Lean driver on the
# tables the harness reports, so a wrong entry here could only waste cases.
CODES = {
 1: "FFLLSSSSYY**CC*WLLLLPPPPHHQQRRRRIIIMTTTTNNKKSSRRVVVVAAAADDEEGGGG",
 2: "FFLLSSSSYY**CCWWLLLLPPPPHHQQRRRRIIMMTTTTNNKKSS**VVVVAAAADDEEGGGG",
 3: "FFLLSSSSYY**CCWWTTTTPPPPHHQQRRRRIIMMTTTTNNKKSSRRVVVVAAAADDEEGGGG",
 4: "FFLLSSSSYY**CCWWLLLLPPPPHHQQRRRRIIIMTTTTNNKKSSRRVVVVAAAADDEEGGGG",
 5: "FFLLSSSSYY**CCWWLLLLPPPPHHQQRRRRIIMMTTTTNNKKSSSSVVVVAAAADDEEGGGG",
 6: "FFLLSSSSYYQQCC*WLLLLPPPPHHQQRRRRIIIMTTTTNNKKSSRRVVVVAAAADDEEGGGG",
 9: "FFLLSSSSYY**CCWWLLLLPPPPHHQQRRRRIIIMTTTTNNNKSSSSVVVVAAAADDEEGGGG",
 10: "FFLLSSSSYY**CCCWLLLLPPPPHHQQRRRRIIIMTTTTNNKKSSRRVVVVAAAADDEEGGGG",
 11: "FFLLSSSSYY**CC*WLLLLPPPPHHQQRRRRIIIMTTTTNNKKSSRRVVVVAAAADDEEGGGG",
 12: "FFLLSSSSYY**CC*WLLLSPPPPHHQQRRRRIIIMTTTTNNKKSSRRVVVVAAAADDEEGGGG",
 13: "FFLLSSSSYY**CCWWLLLLPPPPHHQQRRRRIIMMTTTTNNKKSSGGVVVVAAAADDEEGGGG",
 14: "FFLLSSSSYYY*CCWWLLLLPPPPHHQQRRRRIIIMTTTTNNNKSSSSVVVVAAAADDEEGGGG",
 16: "FFLLSSSSYY*LCC*WLLLLPPPPHHQQRRRRIIIMTTTTNNKKSSRRVVVVAAAADDEEGGGG",
 21: "FFLLSSSSYY**CCWWLLLLPPPPHHQQRRRRIIMMTTTTNNNKSSSSVVVVAAAADDEEGGGG",
 22: "FFLLSS*SYY*LCC*WLLLLPPPPHHQQRRRRIIIMTTTTNNKKSSRRVVVVAAAADDEEGGGG",
 23: "FF*LSSSSYY**CC*WLLLLPPPPHHQQRRRRIIIMTTTTNNKKSSRRVVVVAAAADDEEGGGG",
 24: "FFLLSSSSYY**CCWWLLLLPPPPHHQQRRRRIIIMTTTTNNKKSSSKVVVVAAAADDEEGGGG",
 25: "FFLLSSSSYY**CCGWLLLLPPPPHHQQRRRRIIIMTTTTNNKKSSRRVVVVAAAADDEEGGGG",
 26: "FFLLSSSSYY**CC*WLLLAPPPPHHQQRRRRIIIMTTTTNNKKSSRRVVVVAAAADDEEGGGG",
 27: "FFLLSSSSYYQQCCWWLLLLPPPPHHQQRRRRIIIMTTTTNNKKSSRRVVVVAAAADDEEGGGG",
 28: "FFLLSSSSYYQQCCWWLLLLPPPPHHQQRRRRIIIMTTTTNNKKSSRRVVVVAAAADDEEGGGG",
 29: "FFLLSSSSYYYYCC*WLLLLPPPPHHQQRRRRIIIMTTTTNNKKSSRRVVVVAAAADDEEGGGG",
 30: "FFLLSSSSYYEECC*WLLLLPPPPHHQQRRRRIIIMTTTTNNKKSSRRVVVVAAAADDEEGGGG",
 31: "FFLLSSSSYYEECCWWLLLLPPPPHHQQRRRRIIIMTTTTNNKKSSRRVVVVAAAADDEEGGGG",
 33: "FFLLSSSSYYY*CCWWLLLLPPPPHHQQRRRRIIIMTTTTNNNKSSSKVVVVAAAADDEEGGGG",
}
CODONS = ["".join(p) for p in itertools.product("TCAG", repeat=3)]

RULE = ("pair: two tables re-weighted (after a deep copy) from random coding sequences in which every amino acid of the "
        "code occurs, over all 25 codes; per pair 12-16 cut-offs: a grid over [-1,2], 0 and 1 and their float neighbours, "
        "realised usage shares of both tables and their +/-1 ulp neighbours, tiny and huge values; AddCodonTable and "
        "CompromiseCodonTable both ways, Optimize on the compromise.  Outside the judged domain (correspondence only): "
        "tables from different codes (index panic), amino acids that do not occur (NaN shares), literal tables with "
        "duplicate / missing triplets, empty tables, NaN / Inf cut-offs.  non-trivial = in-domain pair; distinct by case text")
EXHAUSTIVE = {"quick": False, "thorough": False}
TRUSTED_BASE = ["Lean Float = IEEE binary64 with the same + - * / and conversions as Go on amd64 (the step from the Float "
                "model to the exact rational model is bounded by test, +/-1 on the 10000 scale, not proved)",
                "harness deep-copies every operand (table text round trip) before re-weighting and combining (C08 aliasing)"]
ASSUMPTIONS = ["weights and sums below 2^53", "amd64: int(NaN) = -2^63 (only reachable outside the judged domain)",
               "inputs are ASCII"]
PARTIAL = ["optimize_compromise_never_rare is proved against an abstract optimizer that emits only codons of positive "
           "weight in the table it is given (C07's optimize_threshold states this of the model of codon.Optimize; the two "
           "are not yet linked in one Lean statement); the judge checks the clause on the real codon.Optimize output",
           "the +/-1 tolerance between float64 and exact shares is tested (classes ending in 'fx' count the cases where "
           "they differ), not proved"]
TIMEOUT_MS = 30000


def bits(x):
    return str(struct.unpack("<Q", struct.pack("<d", x))[0])


def coding_all(r, code, n_extra, skew, drop):
    """sequence in which every amino acid of `code` occurs; `drop` = fraction of synonymous codons never used"""
    by = {}
    for c, a in zip(CODONS, code):
        by.setdefault(a, []).append(c)
    use = []
    for a, cs in by.items():
        keep = [c for c in cs if r.random() >= drop] or [r.choice(cs)]
        use += keep
    w = [r.random() ** skew + 1e-3 for _ in use]
    body = list(use) + r.choices(use, weights=w, k=n_extra)
    r.shuffle(body)
    s = "".join(body)
    return randcase(r, s) if r.random() < 0.3 else s


def counts(seq):
    s = seq.upper()
    d = {}
    for i in range(0, len(s) - 2, 3):
        d[s[i:i + 3]] = d.get(s[i:i + 3], 0) + 1
    return d


def shares(code, seq):
    cnt = counts(seq)
    tot = {}
    for c, a in zip(CODONS, code):
        tot[a] = tot.get(a, 0) + cnt.get(c, 0)
    out = []
    for c, a in zip(CODONS, code):
        if tot[a] > 0:
            out.append(cnt.get(c, 0) / tot[a])
    return out


def ulps(x):
    return [math.nextafter(x, -math.inf), x, math.nextafter(x, math.inf)]


def cut_list(r, sh1, sh2):
    cs = [r.choice([-1.0, -0.5, -0.25]), r.choice([1.25, 1.5, 2.0]), r.choice([0.25, 0.5, 0.75, 0.1, 0.2, 0.3, 0.05, 0.01])]
    cs += r.sample(ulps(0.0) + [-0.0, 5e-324, -5e-324, 1e-5, 0.0001, 0.00009999], 3)
    cs += r.sample(ulps(1.0) + [0.9999, 0.99999999], 2)
    for sh in (sh1, sh2):
        pos = [x for x in sh if 0 < x < 1] or [0.5]
        x = r.choice(pos)
        cs += ulps(x)
        y = r.choice(pos)
        cs.append(round(y * 10000) / 10000)            # k/10000: 10000*c lands on / next to an integer
        cs.append(math.floor(y * 10000) / 10000)
    cs.append(r.uniform(-1, 2))
    return cs


def protein(r, n):
    return randword(r, "ACDEFGHIKLMNPQRSTVWY", n) + ("*" if r.random() < 0.5 else "")


RAW = [
    # duplicate triplet in the second table; missing triplet (index panic); empty tables; zero totals; negative weight
    ("TTG/TAA/F:TTT=3,TTC=1;L:TTA=2,TTG=2", "TTG/TAA/F:TTT=1,TTC=3;L:TTA=4,TTG=0"),
    ("TTG/TAA/F:TTT=3,TTC=1;L:TTA=2,TTG=2", "TTG/TAA/L:TTG=1,TTA=3;F:TTC=5,TTT=5"),
    ("TTG/TAA/F:TTT=3,TTC=1", "TTG/TAA/F:TTT=1,TTT=2,TTC=3"),
    ("TTG/TAA/F:TTT=3,TTC=1", "TTG/TAA/F:TTT=1"),
    ("TTG/TAA/F:TTT=3,TTC=1", "TTG/TAA/L:TTT=1,TTC=2"),
    ("TTG/TAA/F:TTT=0,TTC=0", "TTG/TAA/F:TTT=1,TTC=2"),
    ("TTG/TAA/F:TTT=3,TTC=1", "TTG/TAA/F:TTT=0,TTC=0"),
    ("//", "//"),
    ("TTG/TAA/F:TTT=3,TTC=1", "//"),
    ("//", "TTG/TAA/F:TTT=3,TTC=1"),
    ("TTG/TAA/F:TTT=-3,TTC=1", "TTG/TAA/F:TTT=1,TTC=2"),
    ("ATG/TGA/F:TTT=1,TTC=2;M:ATG=7", "GTG,ATG/TAA,TAG/F:TTT=2,TTC=1;M:ATG=1"),
    ("TTG/TAA/F:TTT=1,TTC=2,TTA=0", "TTG/TAA/F:TTT=3333,TTC=3333,TTA=3334"),
    ("TTG/TAA/F:TTT=1,TTC=1,TTA=1", "TTG/TAA/F:TTT=1,TTC=1,TTA=1"),
    ("TTG/TAA/F:TTT=1,TTC=2", "TTG/TAA/F:TTT=2,TTC=1;F:TTT=5,TTC=5"),
]


def cases(seed, tier):
    r = rng(seed, "C18")
    ids = sorted(CODES)
    special = ",".join(bits(x) for x in [-1.0, -0.5, 0.0, 0.1, 0.25, 0.3, 1 / 3, 0.5, 2 / 3, 0.75, 1.0, 1.5, 2.0,
                                           float("nan"), float("inf"), -float("inf"), 5e-324, 0.0001, 0.3333])
    for (a, b) in RAW:
        yield ["pair", "raw:" + a, "raw:" + b, special, "FFL"]
    reps = 40 if tier == "quick" else 120
    for rep in range(reps):
        for d in ids:
            code = CODES[d]
            n1 = r.choice([0, 10, 100, 1000, 5000])
            n2 = r.choice([0, 10, 100, 1000, 5000])
            s1 = coding_all(r, code, n1, r.choice([1, 3, 6]), r.choice([0, 0, 0.2, 0.5]))
            s2 = coding_all(r, code, n2, r.choice([1, 3, 6]), r.choice([0, 0, 0.2, 0.5]))
            cs = cut_list(r, shares(code, s1), shares(code, s2))
            yield ["pair", "id:%d:%s" % (d, s1), "id:%d:%s" % (d, s2), ",".join(bits(c) for c in cs), protein(r, r.randint(1, 40))]
    # outside the domain: different codes (panic path or silently misaligned), amino acids missing (NaN shares)
    for _ in range(30 if tier == "quick" else 300):
        d1, d2 = r.choice(ids), r.choice(ids)
        s1 = coding_all(r, CODES[d1], r.choice([0, 30, 300]), 3, 0.3)
        s2 = coding_all(r, CODES[d2], r.choice([0, 30, 300]), 3, 0.3)
        if r.random() < 0.5:
            s1 = randword(r, "ACGT", r.choice([0, 3, 9, 30, 90]))
        cs = [r.choice([0.0, 0.1, 0.5, 1.0, -0.1, 1.1, 5e-324]) for _ in range(4)]
        yield ["pair", "id:%d:%s" % (d1, s1), "id:%d:%s" % (d2, s2), ",".join(bits(c) for c in cs), protein(r, 10)]


TECHNIQUE = ("Lean 4 proof over an exact-rational model of AddCodonTable / CompromiseCodonTable (written once over an "
             "arithmetic record, instantiated exact and float64); differential correspondence against the float64 instance")
LEVEL_TEXT = ("add_sums, add_keeps_code, compromise_mean, compromise_zero_below, compromise_symm, compromise_rejects, "
              "compromise_keeps_code, compromise_never_rare are kernel-checked for all pairs of well-formed tables over the same "
              "code (any order of amino acids and codons in the second table) and all rational cut-offs; the implementation is "
              "compared bit-exactly with the float64 instance of the same model and judged by the exact spec within +/-1.")
LEVEL_NOTE = "Trusted: Lean kernel; Lean Float = Go float64 on amd64; harness deep copies; ASCII."

HARNESS_BIN = "run-codon"
EXTRACT_BINS = ["extract-codon"]
