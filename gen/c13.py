"""C13 — FASTA write/read, re-wrapping, streaming."""
from common import *
import string

RULE = ("record lists of length 1..200 (log-uniform), names of 0..40 printable characters - ASCII 32..126 (any, including leading "
        "'>' ';' and spaces) and, in a quarter of the names, multi-byte characters (Latin-1, Greek, CJK, emoji) - plus names of "
        "1 KiB and 70 KiB, sequences of 0..300000 ASCII letters (log-uniform, plus fixed cases at 65535/65536/65537/70000/300000 "
        "letters on one line, and CR LF files with one line of k*65536-2..k*65536 letters), laid out by Lean's layoutFasta with per-record line lengths 1..(beyond the sequence), blank "
        "and ';' lines before/after the header and between sequence lines, LF or CRLF per record, with or without final "
        "newline; read through Parse, Read (file) and ReadGz (Go's gzip writer, one member or two concatenated members); "
        "Build/Write round trips; ParseConcurrent / ReadConcurrent / ReadGzConcurrent on channel capacities 0..1000 with a "
        "seeded randomly stalling consumer (stalls up to 3 ms; plus one stall of 2.5 s in quick / 5 s in thorough with the "
        "producer blocked on a full channel), also fed through a slow "
        "io.Pipe reader for capacities 0,1,2,3,8 (parsing overlaps consumption); whitespace-only lines among the ignorable "
        "lines; Build's text is held across further Build calls (sequential and two goroutines); Write goes to a path that already "
        "holds a longer file; a ReadGzConcurrent stream of >= 200 KiB is interrupted by ReadGz / ReadGzConcurrent on another file. Quick tier: a race-detector run over a subset incl. a > 64 KiB stream. "
        "non-trivial = at least one record has a non-empty sequence; distinct by case text")
EXHAUSTIVE = {"quick": False, "thorough": False}
TRUSTED_BASE = ["compress/gzip (Go's writer and reader are both outside the model)",
                "bufio.Scanner/ScanLines modelled in Lean (Model/Fasta.lean scanLines); os file I/O",
                "the Go scheduler and memory model: the channel semantics of Base/Chan.lean is the language specification's, "
                "data races are looked for by the -race runs only"]
ASSUMPTIONS = ["a producer that abandons a blocked send after more than 2.5 s (quick) / 5 s (thorough) is out of reach of the stalled-"
               "consumer cases; the model has no clock",
               "several parsers in one process: every Parse case also runs two more Parse calls on the same text and one on "
               "another text concurrently, every stream case runs next to another ParseConcurrent; all results are judged",
               "names may contain non-ASCII characters; the model works on code points, Go on UTF-8 bytes: they agree because no byte of a "
               "multi-byte character is LF, CR, '>' or ';' (argued and tested, not proved); LinesFit counts characters, the "
               "scanner bytes (irrelevant below 2^31/4 characters per line)",
               "'blank line' = empty line or a line of blanks and tabs (other Unicode white space is modelled, goIsSpace, and tied by "
               "raw correspondence cases, but not part of the layouts)", "every line is shorter than math.MaxInt32 - 1 bytes (the scanner's limit after fix 99317d2)",
               "a consumer is determined by the channels it is blocked on as a function of what it has received (no select-default/timeouts)"]
PARTIAL = ["'unchanged by gzip compression': no theorem; compress/gzip is a trusted component and the clause rests on the runs "
           "through Go's own gzip writer (one and two members) and reader",
           "streaming: the goroutine's loop is modelled statement by statement as the channel operations it performs "
           "(Model/Fasta.loopOps) and PROVED to send exactly the records of parse, in order, then close once (producer_refines); what "
           "remains informal is that scanning between two sends has no effect on the channel (reading the io.Reader is not a channel "
           "operation)",
           "non-ASCII names: theorems are over code points (see ASSUMPTIONS)",
           "data races are outside the model: -race runs only"]
TECHNIQUE = ("Lean 4 proof over an executable model of the scanner, the parser loop, Build and the producer goroutine on a "
             "small-step channel semantics; independent layout writer as spec; differential correspondence incl. schedules")
LEVEL_TEXT = ("Kernel-checked for all record lists, sequence lengths, layouts, capacities and schedules: parse_build, parse_layout "
              "(+ invariance corollary), producer_refines (the goroutine's loop, as written, performs exactly one send per parsed record in "
              "order and one close), stream_prefix (safety for every consumer), stream_terminates, stream_complete, stream_fifo, "
              "parseCollect_eq (fasta.Parse = the records sent). The model is tied to the code by correspondence on Parse/Read/ReadGz/"
              "Build/Write and on channel traces for capacities 0..1000 with stalled consumers (thorough: under the race detector, "
              "GOMAXPROCS 1/2/16).")
LEVEL_NOTE = ("Trusted: Lean kernel; harness; gzip; the scheduler. The exact position of the scanner's length limit (2^31-1) is not "
              "exercised.")
HARNESS_BIN = "run-io"
EXTRACT_BINS = []
NEEDS_RACE = True
NEEDS_RACE_QUICK = True
TIMEOUT_MS = 60000

LETTERS = string.ascii_letters
PRINTABLE = "".join(chr(c) for c in range(32, 127))
COMMENTCH = PRINTABLE + "\t" + "éΩ世☃"


def seq(r, n):
    if n == 0:
        return ""
    alpha = r.choice(["ACGT", "ACGTN", "acgtACGTNn", LETTERS, "ACDEFGHIKLMNPQRSTVWY"])
    return "".join(r.choices(alpha, k=n))


NONASCII = "éüßñçÅøΩλπжЯ世界配列ｱ ☃🧬😀"


def name(r):
    k = r.choice([0, 1, 1, 3, 8, 8, 20, 40])
    s = "".join(r.choices(PRINTABLE + NONASCII if r.random() < 0.25 else PRINTABLE, k=k))
    if k and r.random() < 0.25:
        s = r.choice([">", ";", " ", ">>", "; "]) + s[1:]
    return s


def junks(r, p):
    if r.random() >= p:
        return ""
    items = []
    for _ in range(r.randint(1, 3)):
        c = r.random()
        if c < 0.4:
            items.append("b")
        elif c < 0.6:
            items.append("s" + "".join(r.choices(" \t", weights=[4, 1], k=r.randint(1, 5))))   # blanks / tabs only
        else:
            items.append("c" + "".join(r.choices(COMMENTCH, k=r.choice([0, 1, 5, 30]))))
    return "\n".join(items)


def width_for(r, n):
    c = r.random()
    if c < 0.15: return 0                       # one letter per line
    if c < 0.45: return r.choice([59, 69, 79])  # the usual widths
    if c < 0.65: return r.randint(0, 200)
    if c < 0.80: return max(0, n - 1 + r.choice([-1, 0, 1]))  # about the whole sequence
    if c < 0.90: return r.choice([65533, 65534, 65535, 65536, 65537])
    return n + 1000                             # never wraps


def rec_layout(r, n_seq, junk_p, between_ok=True):
    w = width_for(r, n_seq)
    if w == 0 and n_seq > 20000:
        w = r.choice([0, 59]) if n_seq <= 300000 else 59
    widths = ""
    if r.random() < 0.3:
        widths = ",".join(str(r.choice([0, 1, 2, 5, 60, 1000])) for _ in range(r.randint(1, 6)))
    between = junks(r, junk_p * 0.5) if (between_ok and (n_seq // (w + 1)) < 2000) else ""
    return ["1" if r.random() < 0.3 else "0", str(w), widths, junks(r, junk_p), junks(r, junk_p), between]


def rec_list(r, budget, nmax=200, big=None):
    """records (name, seq) within a total letter budget"""
    n = min(nmax, loglen(r, 1, nmax))
    recs = []
    left = budget
    for i in range(n):
        if big is not None and i == 0:
            k = big
        else:
            c = r.random()
            if c < 0.12: k = 0
            elif c < 0.85: k = loglen(r, 1, 400)
            else: k = loglen(r, 1, 300000)
        k = max(0, min(k, left))
        left -= k
        recs.append((name(r), seq(r, k)))
    return recs


def layout_fields(r, recs, junk_p):
    out = []
    for (nm, sq) in recs:
        out += [nm, sq] + rec_layout(r, len(sq), junk_p)
    return out


def layout_case(r, recs, mode=None, junk_p=0.3):
    mode = mode or r.choice(["plain", "plain", "file", "gz", "gz2"])
    return ["layout", mode, "1" if r.random() < 0.7 else "0", str(len(recs))] + layout_fields(r, recs, junk_p)


def build_case(r, recs, mode=None):
    mode = mode or r.choice(["plain", "plain", "file", "gz", "gz2"])
    out = ["build", mode, str(len(recs))]
    for (nm, sq) in recs:
        out += [nm, sq]
    return out


def stream_case(r, recs, cap=None, src=None, stall=None):
    if cap is None:
        c = r.random()
        n = len(recs)
        if c < 0.2: cap = 0
        elif c < 0.35: cap = 1
        elif c < 0.6: cap = r.randint(0, max(1, n))
        elif c < 0.7: cap = max(0, n + r.choice([-1, 0, 1]))
        elif c < 0.8: cap = 1000
        else: cap = r.randint(0, 1000)
    src = src or r.choice(["mem", "mem", "mem", "file", "gz", "gz2"])
    stall = r.choice([0, 50, 300, 700, 1000]) if stall is None else stall
    return (["stream", src, str(cap), str(r.randint(0, 2 ** 31)), str(stall), "1" if r.random() < 0.7 else "0",
             str(len(recs))] + layout_fields(r, recs, 0.2))


RAW = ["\u00a0", ">a\nAC\n\u00a0\u2003\nGT", ">a\nAC\n\u200b\nGT", ">a\n\x0b\x0c\nGT\n\u0085\n", " \t\r\n>a\n \nA", ">a\nAC\n  ;x\nGT",
       ">a\nAC\n  >b\nGT", "\u3000>a\nAC", "", "\n", "\r", "\r\n", "ACGT", "ACGT\n>a\nTT", ">a", ">a\n", ">\n", ">a\r", ">a\n\r", ">a\nAC\r\nGT\r", ";c\n>a\nA",
       ">a\n>b\n>c", ">a\nAC GT\n", " >a\nAC\n", ">a\n;x\n\n\nAC\n;y\nGT\n>b", "\n\n>a\n\nA\n\n", ">a\nA\r\r\n", ">a\n>\n>",
       "A\n;\n>", ">a\tb\nAC\n", ">a\nA>C\n>b;\n;C", "x\ny\nz", ">\\a\nAC\\n", ">a\n\x0bAC\n"]


def cases(seed, tier):
    r = rng(seed, "C13")
    quick = tier == "quick"
    # --- small structured family: 1..3 records over short sequences, every width 1..4, each decoration
    smalls = ["", "A", "AC", "ACG", "ACGTA"]
    for n in (1, 2, 3):
        for combo in itertools.islice(itertools.product(smalls, repeat=n), 0, None, 1 if n < 3 else 7):
            recs = [("s%d" % i, s) for i, s in enumerate(combo)]
            for w in range(0, 4):
                for deco in range(0, 4):
                    f = ["layout", "plain", "1" if deco != 3 else "0", str(n)]
                    for (nm, sq) in recs:
                        f += [nm, sq, "1" if deco == 1 else "0", str(w), "", "b\ncx" if deco == 2 else "",
                              "b" if deco == 2 else "", "c" if deco == 2 else ""]
                    yield f
            yield build_case(r, recs, "plain")
            yield stream_case(r, recs, cap=r.choice([0, 1, 2]), src="mem")
    # --- the fixed sizes around bufio's 64 KiB default, and the property's maximum
    for k in ([65535, 65536, 70000, 300000] if quick else [65534, 65535, 65536, 65537, 70000, 131072, 300000]):
        recs = [("long%d" % k, seq(r, k)), ("after", seq(r, 5))]
        yield build_case(r, recs, "plain")
        yield ["layout", "plain", "1", "2", recs[0][0], recs[0][1], "0", str(k + 5), "", "", "", "",
               recs[1][0], recs[1][1], "1", "2", "", "", "", ""]
    # long names (a header line beyond the scanner's initial buffer) and non-ASCII names
    yield build_case(r, [("n" * 1024, "ACGT"), ("".join(r.choices(PRINTABLE, k=70000)), seq(r, 10)), ("z", "")], "plain")
    yield ["layout", "gz2", "1", "2", "".join(r.choices(PRINTABLE + NONASCII, k=70000)), seq(r, 100), "1", "9", "", "b", "", "",
           "世界 🧬 é", seq(r, 50), "0", "0", "", "", "", ""]
    yield stream_case(r, [("".join(r.choices(PRINTABLE + NONASCII, k=66000)), seq(r, 70000)), ("é", "A")], cap=0, src="gz2")
    # a HISTORY of gzip reads: ReadGzConcurrent on a file of >= 200 KiB (capacity 0 / 1), three records consumed, then
    # ReadGz and ReadGzConcurrent on another file, then the rest of the first
    for cap in ((0, 1) if quick else (0, 1, 0, 1, 2, 5)):
        recs = [("gzh%02d" % i + name(r)[:5], seq(r, r.randint(9000, 16000))) for i in range(r.randint(20, 30))]
        yield stream_case(r, recs, cap=cap, src="gzhist", stall=r.choice([0, 300]))
    # a SLOW consumer: one long stall before its second receive, with more records than the channel holds
    # (n >= cap + 3), so that the producer sits blocked on a send for the whole stall - a producer that gives up
    # on a blocked send after a timeout loses a record here (quick: 2.5 s, one case; thorough: 5 s, three cases)
    for cap in ((1,) if quick else (0, 1, 5)):
        n = cap + 3 + r.randint(0, 6)
        recs = [("slow%02d" % i, seq(r, r.choice([1, 20, 200]))) for i in range(n)]
        yield stream_case(r, recs, cap=cap, src="mem", stall=1000 + (2500 if quick else 5000))
    # CR LF files whose single sequence line ends right at a multiple of 64 KiB: with k*65536-1 letters the '\r' is the
    # last byte of a 64 KiB piece (a scanner / split function that cuts long lines into buffer-sized pieces before it
    # has seen the line end would keep it); lengths around it as well; Parse and ParseConcurrent
    # The same for the other read-buffer sizes a rewrite is likely to pick (4 KiB bufio default, 100 KiB, 128 KiB, ...;
    # seeded change C13-l used bufio.NewReaderSize(r, 100*1024) + ReadSlice), with the CR on the last byte of a piece
    # counted from the start of the LINE (d = -1) and from the start of the STREAM (the 4-byte header ">c\r\n" before it).
    ks = (1, 2) if quick else (1, 2, 3, 4)
    bufs = (65536, 4096, 102400, 131072) if quick else (65536, 4096, 8192, 16384, 32768, 102400, 131072, 262144, 1048576)
    for k, B, d in [(k, B, d) for B in bufs for k in (ks if B == 65536 else ks[:2]) for d in ((-2, -1, 0) if B == 65536 else (-1, -5))]:
        if True:
            n = k * B + d               # letters: k*B-1 puts the CR at offset k*B-1 of the line
            recs = [("crlf%d" % n if d != -5 else "c", seq(r, n)), ("next", seq(r, 7))]
            fields = [recs[0][0], recs[0][1], "1", str(n + 10), "", "", "", "",
                      recs[1][0], recs[1][1], "1", "59", "", "", "", ""]
            yield ["layout", "plain", "1", "2"] + fields
            yield ["stream", "mem", str(r.choice([0, 1, 1000])), str(r.randint(0, 2 ** 31)), "0", "1", "2"] + fields
            if not quick:
                yield ["layout", r.choice(["file", "gz"]), "0", "2"] + fields
                yield ["stream", r.choice(["pipe", "file", "gz2"]), "2", str(r.randint(0, 2 ** 31)), "300", "0", "2"] + fields
    yield build_case(r, [("gz", seq(r, 300000))], "gz")
    yield build_case(r, [("gz2", seq(r, 150000)), ("m2", seq(r, 150000))], "gz2")
    yield build_case(r, [("file", seq(r, 200000)), ("f2", "")], "file")
    big = seq(r, 300000 if not quick else 100000)
    yield ["layout", "gz", "0", "1", "w1", big, "0", "0", "", "", "", ""]        # one letter per line
    yield ["layout", "file", "1", "1", "w1crlf", big[:50000], "1", "0", "", "", "", "b"]
    yield stream_case(r, [("big", seq(r, 300000)), ("b2", seq(r, 70000)), ("b3", "")], cap=0, src="mem")
    # --- random
    nl, nb, ns = (150, 60, 160) if quick else (2500, 800, 2500)
    budget = 40000 if quick else 120000
    for i in range(nl):
        yield layout_case(r, rec_list(r, budget))
    for i in range(nb):
        yield build_case(r, rec_list(r, budget))
    for i in range(ns):
        yield stream_case(r, rec_list(r, budget // 4))
    for i in range(6 if quick else 60):   # full-length lists and long sequences together
        yield layout_case(r, rec_list(r, 700000, big=r.choice([66000, 150000, 300000])))
        yield stream_case(r, rec_list(r, 400000, nmax=200, big=r.choice([66000, 300000])) + [("x", "")] * 0)
    for i in range(10 if quick else 100):  # 200 records
        recs = [(name(r), seq(r, r.choice([0, 1, 10, 100]))) for _ in range(r.choice([199, 200]))]
        yield stream_case(r, recs)
        yield layout_case(r, recs)
    # --- order under back-pressure: small capacities, a stalling consumer, and a SLOW READER (io.Pipe fed in
    # --- small pieces), so that records are finished while the channel is full and slots are freed while
    # --- the parser is still reading; the whole received ORDER is compared
    for cap in (0, 1, 2, 3, 8):
        for k in range(4 if quick else 40):
            n = r.randint(5, 40)
            recs = [("r%03d" % i + name(r)[:6], seq(r, r.choice([0, 3, 30, 120]))) for i in range(n)]
            yield stream_case(r, recs, cap=cap, src="pipe", stall=r.choice([300, 700, 1000]))
    # --- out of the property's domain: correspondence only
    for t in RAW:
        yield ["raw", t]
    yield ["build", "plain", "0"]                      # the empty list: Build writes "", Parse returns one empty record
    yield ["build", "plain", "1", "a", ">b"]           # a sequence that is not letters
    yield ["build", "plain", "1", "a\rb", "AC"]
    yield ["layout", "plain", "1", "1", "a", "AC-GT*", "0", "2", "", "", "", ""]
    yield ["layout", "plain", "1", "1", "a", "ACGT", "0", "1", "", "c\rx", "", ""]
    for i in range(40 if quick else 400):
        t = "".join(r.choices(">;\n\r AC\tx", weights=[3, 2, 6, 2, 1, 5, 5, 1, 2], k=r.randint(0, 40)))
        yield ["raw", t]


RACE_ENV = {"GORACE": "halt_on_error=1", "VERIF_FLUSH_EACH": "1"}


def extra_runs(seed, tier, case_lines):
    streams = [c for c in case_lines if c.startswith("stream\t")]
    small = [c for c in streams if len(c) < 20000]
    big = [c for c in streams if len(c) >= 66000]     # texts beyond the scanner's 64 KiB initial buffer
    parses = [c for c in case_lines if c.startswith(("layout\t", "build\t")) and len(c) < 20000]
    pipes = [c for c in streams if c.startswith("stream\tpipe\t")]
    if tier != "thorough":
        # quick: a small race-detector run (Parse is concurrent too), with two > 64 KiB streams
        yield ("race-q", small[::6][:40] + pipes[::2] + big[:2] + parses[::25][:20], dict(RACE_ENV, GOMAXPROCS="4"), True)
        return
    for procs in ("1", "2", "16"):
        # the race-detector binary, 3 disjoint thirds so that the whole set is run once under -race and
        # the schedules differ between GOMAXPROCS settings; every > 64 KiB stream in each
        k = {"1": 0, "2": 1, "16": 2}[procs]
        yield ("race-p" + procs, small[k::3] + big[:30] + parses[k::9][:300], dict(RACE_ENV, GOMAXPROCS=procs), True)
    yield ("p1", streams[::2], {"GOMAXPROCS": "1"}, False)
    yield ("p16", streams[1::2], {"GOMAXPROCS": "16"}, False)
