"""C15 — JSON is a lossless interchange form for annotated sequences.

Cases (one per line, ASCII only):
  rt   <canon x>            a generated poly.Sequence value in the canonical text form shared by the
                            harness (harness/cmd/run-io/ops_c15.go) and the Lean driver (Driver/C15.lean)
  dec  <canon x> <n>        decoder rules outside the property's domain (member absent / null / unknown / moved)
  conv gbk|gff <file text>  a generated GenBank / GFF file (non-ASCII written as \\u{HEX})
"""
from common import *
import itertools

# ---------------------------------------------------------------- canon printing

def cS(s):
    n = len(s)
    if n >= 4096:
        # long exactly-periodic strings travel as r<count>*s<unit> (see ops_c15.go)
        for p in range(1, 65):
            if n % p == 0 and s == s[:p] * (n // p):
                return "r%d*%s" % (n // p, cS(s[:p]))
    return "s" + ".".join(str(ord(c)) for c in s)

def cI(n):
    return "i%d" % n

def cB(b):
    return "b1" if b else "b0"

def cMap(m):
    if m is None:
        return ["nil"]
    out = ["<"]
    for k in sorted(m, key=lambda k: [ord(c) for c in k]):
        out += [cS(k), cS(m[k])]
    return out + [">"]

def cSlice(f, xs):
    if xs is None:
        return ["nil"]
    out = ["["]
    for x in xs:
        out += f(x)
    return out + ["]"]

def cLoc(l):
    return (["{", "Start", cI(l["start"]), "End", cI(l["end"]), "Complement", cB(l["c"]), "Join", cB(l["j"]),
             "FivePrimePartial", cB(l["p5"]), "ThreePrimePartial", cB(l["p3"]), "SubLocations"]
            + cSlice(cLoc, l["subs"]) + ["}"])

LOCUS_F = ["Name", "SequenceLength", "MoleculeType", "GenbankDivision", "ModificationDate", "SequenceCoding"]
REF_F = ["Index", "Authors", "Title", "Journal", "PubMed", "Remark", "Range"]
META_S = ["Name", "GffVersion", "Type", "Date", "Definition", "Accession", "Version", "Keywords", "Organism", "Source", "Origin"]
META_I = ["RegionStart", "RegionEnd", "Size"]
FEAT_S = ["Name", "Source", "Type", "Score", "Strand", "Phase", "GbkLocationString", "Sequence", "SequenceHash",
          "Description", "SequenceHashFunction"]
SEQ_S = ["Description", "SequenceHash", "SequenceHashFunction", "Sequence"]

def cLocus(l):
    out = ["{"]
    for k in LOCUS_F:
        out += [k, cS(l.get(k, ""))]
    return out + ["Circular", cB(l.get("Circular", False)), "Linear", cB(l.get("Linear", False)), "}"]

def cRef(r):
    out = ["{"]
    for k in REF_F:
        out += [k, cS(r.get(k, ""))]
    return out + ["}"]

def cMeta(m):
    out = ["{"]
    for k in META_S:
        out += [k, cS(m.get(k, ""))]
    for k in META_I:
        out += [k, cI(m.get(k, 0))]
    out += ["Locus"] + cLocus(m.get("Locus", {}))
    out += ["References"] + cSlice(cRef, m.get("References"))
    out += ["Other"] + cMap(m.get("Other"))
    return out + ["}"]

def cFeature(f, root=None):
    out = ["{"]
    for k in FEAT_S:
        out += [k, cS(f.get(k, ""))]
    out += ["Attributes"] + cMap(f.get("Attributes"))
    out += ["SequenceLocation"] + cLoc(f["loc"])
    p = f.get("parent")
    out += ["ParentSequence"] + (["nil"] if p is None else (["^", "="] if p == root else ["^", cS(p)]))
    return out + ["}"]

def canon(x):
    out = ["{", "Meta"] + cMeta(x.get("Meta", {}))
    for k in SEQ_S:
        out += [k, cS(x.get(k, ""))]
    out += ["Features"] + cSlice(lambda f: cFeature(f, x.get("Sequence", "")), x.get("Features"))
    return " ".join(out + ["}"])

# ---------------------------------------------------------------- random values

WORDS = ["(bases 1 to 20)", "22-OCT-2019", "ds-DNA", "DNA", "mRNA", "Direct Submission.", "Gene. 1983 Dec;26(1):101-6.",
         "2019-10-22T10:00:00Z", "NC_000913.3", "circular", "Homo sapiens", "", "", "a", "CDS", "gene", "misc_feature", "pUC19", "E. coli", "lacZ alpha", "1..9", "+", "-", ".", "0",
         "blake3", "v1_DCD_", "join(1..2,4..5)", "x y  z", " lead", "trail ", "UPPER lower"]
TRICKY = ["<b>&amp;</b>", "say \"hi\"", "back\\slash", "tab\there", "line\nbreak", "cr\rhere", "\x01\x02\x1f", "\x7f",
          "/slash/", "{\"k\":[1,null]}", "null", "\\u0041", "  ", "�", "﻿bom", "%3B;=,", "sep\u2028para\u2029end", "nul\x00inside", "bs\x08ff\x0c", "\x08", "\x0c", "\x0b\x0e\x1b",
          # text that LOOKS like a JSON escape (backslash + letters, as plain characters): a writer that post-processes the
          # encoded bytes (un-escaping \u003c / \u003e / \u0026 "for readability", seeded change C15-l) corrupts these
          "\\u003c", "a\\u003eb", "\\u0026amp;", "\\u003c1..\\u003e200", "\\\\u003c", "\\n", "\\\"", "\\u2028", "x\\u0000y", "\\/", "\\ud83e\\uddec"]
NONASCII = ["gène", "Ünal", "中文", "\U0001f9ec", "α-helix β", "naïve \U00010348", "퟿",
            "\U0010ffff", "\u0080߿ࠀ￿"]

# numeric-looking text in forms a number-canonicalising codec would change (or reject): any string field could get one
NUMERIC = ["1e-5", "12.30", "100.0", "+1", "007", "1E5", ".5", "5.", "-0", "1e400", "NaN", "Inf", "-Inf", "+Inf", "0x10", "1_000",
           "1e+5", "0.10", "1.0e0", "00", "-.5", "1e5", "123456789012345678901234567890", "0.1e1", "9007199254740993",
           "-0.0", "1e-400", "true", "false", "null", " 1", "1 ", "1,5", "١٢٣", "6323249", "0", "1", "3.0"]

PLAIN = [False]   # when set, every generated string is printable ASCII (the writers' models' domain)

def rstr(r, tricky=0.12, nonascii=0.12):
    if r.random() < 0.004:
        # a long text (a /translation of a few kB, a multi-line COMMENT): every string field can get one
        return randword(r, "ACDEFGHIKLMNPQRSTVWY" if PLAIN[0] or r.random() < 0.5 else "abc de, fg.\n", r.choice([300, 4097, 9000]))
    if r.random() < 0.12:
        t = r.choice(NUMERIC)
        if not PLAIN[0] or all(32 <= ord(c) <= 126 for c in t):
            return t
    if PLAIN[0]:
        return randword(r, "abc XYZ,.;=", r.randint(20, 120)) if r.random() < 0.1 else r.choice(WORDS)
    u = r.random()
    if u < nonascii:
        s = r.choice(NONASCII)
        if r.random() < 0.3:
            s = s + r.choice(WORDS)
        return s
    if u < nonascii + tricky:
        return r.choice(TRICKY)
    if u < nonascii + tricky + 0.05:
        # arbitrary scalar values (NUL included, no surrogates)
        return "".join(chr(c) for c in (rcp(r) for _ in range(r.randint(1, 6))))
    if u < nonascii + tricky + 0.08:
        return randword(r, "abc XYZ,.;=", r.randint(20, 120))
    return r.choice(WORDS)

def rcp(r):
    while True:
        c = r.choice([r.randint(0, 0x7f), r.randint(0x80, 0x7ff), r.randint(0x800, 0xffff), r.randint(0x10000, 0x10ffff)])
        if not (0xd800 <= c <= 0xdfff):
            return c

def rint(r, n=None):
    u = r.random()
    if u < 0.05:
        return r.choice([-1, -9223372036854775808, 9223372036854775807, 2**31, -2**31 - 1, 2**53 + 1])
    if n is not None:
        return r.randint(0, max(n, 1))
    return r.randint(0, 5000)

def rmap(r, nilp=0.25, emptyp=0.2):
    u = r.random()
    if u < nilp:
        return None
    if u < nilp + emptyp:
        return {}
    m = {}
    cnt = r.choice([1, 2, 3, 4, 4] * 4 + [12, 40])
    for i in range(cnt):
        k = ("key%02d" % i) if cnt > 4 and r.random() < 0.6 else rstr(r) if r.random() < 0.4 else r.choice(["gene", "note", "label", "product", "COMMENT", "DBLINK", "translation", "", "a", "b"])
        m[k] = rstr(r)
    if r.random() < 0.2 and m:     # several keys with one value
        v = next(iter(m.values()))
        for k in ["dup1", "dup2"]:
            m[k] = v
    return m

def rloc(r, n, depth, maxdepth):
    """location tree over a parent of length n; mostly evaluable, sometimes out of range"""
    l = {"c": r.random() < 0.3, "j": False, "p5": r.random() < 0.15, "p3": r.random() < 0.15, "subs": None}
    if r.random() < 0.08:
        l["start"], l["end"] = rint(r), rint(r)
    else:
        a = r.randint(0, n); b = r.randint(0, n)
        l["start"], l["end"] = min(a, b), max(a, b)
    if depth < maxdepth and r.random() < (0.55 if depth == 0 else 0.45):
        l["j"] = r.random() < 0.85
        k = r.choice([0, 1, 2, 2, 3])
        l["subs"] = [rloc(r, n, depth + 1, maxdepth) for _ in range(k)]
    else:
        l["j"] = r.random() < 0.05
        u = r.random()
        l["subs"] = [] if u < 0.15 else None
    return l

def deep_loc(r, n, depth):
    """a chain that certainly reaches `depth` levels of sub-locations"""
    l = rloc(r, n, 9, 0)
    if depth > 0:
        l["j"] = True
        l["subs"] = [rloc(r, n, 9, 0) for _ in range(r.randint(0, 1))] + [deep_loc(r, n, depth - 1)]
    return l

def big_value(r, unit, k, nfeat):
    """a value whose sequence is `unit` repeated k times (genome-sized), with short features spread over it
    (first letters, last letters, across unit boundaries) so that the GetSequence replies stay small"""
    seq = unit * k
    n = len(seq)
    x = rsequence(r, 2)
    x["Sequence"] = seq
    feats = []
    for i in range(nfeat):
        f = rfeature(r, "", 0)
        a = [0, n - 90, r.randint(0, n - 100), r.randint(0, n - 100)][i % 4]
        b = a + r.randint(1, 90)
        f["loc"] = {"start": a, "end": b, "c": i % 2 == 1, "j": False, "p5": False, "p3": False, "subs": None}
        if i % 3 == 2:
            f["loc"] = {"start": 0, "end": 0, "c": False, "j": True, "p5": False, "p3": False,
                        "subs": [dict(f["loc"], c=False), {"start": n - 7, "end": n, "c": True, "j": False, "p5": False, "p3": False, "subs": None}]}
        f["parent"] = seq
        feats.append(f)
    x["Features"] = feats
    return x

def rseqtext(r):
    u = r.random()
    if u < 0.08:
        return ""
    n = r.choice([1, 3, 10, 59, 60, 61, 70, 71, 140, 200])
    if u < 0.75:
        return randword(r, "ACGT", n)
    if u < 0.85:
        return randcase(r, randword(r, IUPAC15, n))
    if u < 0.92 or PLAIN[0]:
        return randword(r, "acgtnU-* 1", n)
    return rstr(r, 0.2, 0.8)

def rfeature(r, seqtext, maxdepth):
    f = {}
    for k in FEAT_S:
        if r.random() < 0.45:
            f[k] = rstr(r)
    f["Type"] = r.choice(["CDS", "gene", "source", "misc_feature", "", rstr(r), "a_very_long_feature_type_name"])
    if PLAIN[0] and r.random() < 0.5:
        f["GbkLocationString"] = ""      # let the writer print the location tree
    f["Attributes"] = rmap(r)
    n = len(seqtext.encode("utf-8"))
    f["loc"] = deep_loc(r, n, maxdepth) if r.random() < 0.15 else rloc(r, n, 0, maxdepth)
    u = r.random()
    f["parent"] = seqtext if u < 0.85 else (None if u < 0.93 else rseqtext(r))
    if r.random() < 0.5:
        f["GbkLocationString"] = r.choice(["", "1..3", "complement(join(1..3,7..9))", "<1..>4", rstr(r)])
    return f

def rmeta(r):
    m = {}
    for k in META_S:
        if r.random() < 0.45:
            m[k] = rstr(r)
    for k in META_I:
        if r.random() < 0.5:
            m[k] = rint(r)
    l = {}
    for k in LOCUS_F:
        if r.random() < 0.5:
            l[k] = rstr(r)
    l["Circular"] = r.random() < 0.4
    l["Linear"] = r.random() < 0.4
    m["Locus"] = l
    u = r.random()
    if u < 0.25:
        m["References"] = None
    elif u < 0.4:
        m["References"] = []
    else:
        m["References"] = [{k: rstr(r) for k in REF_F if r.random() < 0.6} for _ in range(r.choice([1, 2, 3, 3] * 4 + [9, 30]))]
        if r.random() < 0.25:      # identical references (a reader must not merge them)
            m["References"] = m["References"] + [dict(m["References"][0]), dict(m["References"][-1])]
    m["Other"] = rmap(r)
    return m

def rsequence(r, maxdepth):
    x = {"Meta": rmeta(r)}
    for k in SEQ_S:
        if r.random() < 0.4:
            x[k] = rstr(r)
    x["Sequence"] = rseqtext(r)
    u = r.random()
    if u < 0.12:
        x["Features"] = None
    elif u < 0.22:
        x["Features"] = []
    else:
        x["Features"] = [rfeature(r, x["Sequence"], maxdepth) for _ in range(r.choice([1, 1, 2, 3, 5] * 5 + [13, 13, 40]))]
        if r.random() < 0.15:      # identical features next to each other and far apart
            f = x["Features"][0]
            x["Features"] = [f, dict(f)] + x["Features"][1:] + [dict(f)]
    return x

def all_fields(t):
    """a value in which EVERY string field (map keys and values included) holds the text t"""
    loc = {"start": 0, "end": 0, "c": False, "j": False, "p5": False, "p3": False, "subs": None}
    f = {k: t for k in FEAT_S}
    f.update({"Attributes": {t: t, "k": t}, "loc": loc, "parent": t})
    m = {k: t for k in META_S}
    m.update({"Locus": {k: t for k in LOCUS_F}, "References": [{k: t for k in REF_F}], "Other": {t: t, "K": t}})
    x = {k: t for k in SEQ_S}
    x.update({"Meta": m, "Features": [f, dict(f)]})
    return x

CLEAN_TEXT = ["", "x", "pUC cloning vector.", "E. coli", "Direct Submission", "Gene. 1983 Dec;26(1):101-6.", "6323249", "a b c"]

def clean_value(r):
    """a value inside the domains in which C03 / C14 judge genbank.Build / gff.Build (named record, letters only, valid
    location structures written from the tree, plain qualifiers): here the writers' models applied to the model's views
    must print exactly what the real writers print"""
    n = r.choice([1, 9, 60, 61, 70, 71, 150])
    seq = randword(r, "ACGT", n)
    def leaf():
        a = r.randint(0, n - 1); b = r.randint(a + 1, n)
        return {"start": a, "end": b, "c": r.random() < 0.3, "j": False, "p5": r.random() < 0.2, "p3": r.random() < 0.2, "subs": None}
    def loc():
        if r.random() < 0.6:
            return leaf()
        return {"start": 0, "end": 0, "c": r.random() < 0.3, "j": True, "p5": False, "p3": False,
                "subs": [leaf() for _ in range(r.randint(2, 3))]}
    feats = []
    for _ in range(r.choice([0, 1, 2, 4])):
        keys = r.sample(["gene", "label", "note", "product", "codon_start"], r.randint(0, 3))
        feats.append({"Name": r.choice(["", "chr1"]), "Source": r.choice(["", "feature", "GenBank"]),
                      "Type": r.choice(["CDS", "gene", "misc_feature", "source"]), "Score": r.choice(["", ".", "0.5"]),
                      "Strand": r.choice(["", "+", "-", "."]), "Phase": r.choice(["", ".", "0"]),
                      "Attributes": {k: r.choice(CLEAN_TEXT[1:]) for k in keys} if keys or r.random() < 0.5 else None,
                      "loc": loc(), "parent": seq})
    circ = r.random() < 0.5
    m = {"Name": r.choice(["", "pX1"]), "GffVersion": r.choice(["", "3"]),
         "Definition": r.choice(CLEAN_TEXT), "Accession": r.choice(["", "X1"]), "Version": r.choice(["", "X1.1"]),
         "Keywords": r.choice(CLEAN_TEXT), "Source": r.choice(CLEAN_TEXT), "Organism": r.choice(CLEAN_TEXT),
         "Locus": {"Name": "pX1", "SequenceLength": str(n), "MoleculeType": r.choice(["DNA", "RNA", ""]),
                   "GenbankDivision": r.choice(["SYN", "BCT", ""]), "ModificationDate": r.choice(["22-OCT-2019", ""]),
                   "Circular": circ, "Linear": (not circ) and r.random() < 0.7},
         "References": r.choice([None, [], [{"Authors": "A, B", "Title": r.choice(CLEAN_TEXT), "Journal": r.choice(CLEAN_TEXT),
                                             "PubMed": r.choice(["", "6323249"]), "Remark": r.choice(CLEAN_TEXT),
                                             "Range": "(bases 1 to %d)" % n} for _ in range(r.randint(1, 3))]]),
         "Other": r.choice([None, {}, {k: r.choice(CLEAN_TEXT[1:]) for k in r.sample(["COMMENT", "DBLINK", "PRIMARY"], r.randint(1, 3))}])}
    return {"Meta": m, "Sequence": seq, "Features": feats if feats or r.random() < 0.5 else None}

def collection_grid():
    """every combination of nil / empty / non-empty at the five kinds of collection"""
    states = ["nil", "empty", "some"]
    for feats, refs, other, attrs, subs in itertools.product(states, repeat=5):
        loc = {"start": 1, "end": 4, "c": False, "j": subs == "some", "p5": False, "p3": False,
               "subs": None if subs == "nil" else ([] if subs == "empty" else
                        [{"start": 0, "end": 2, "c": True, "j": False, "p5": True, "p3": False, "subs": None},
                         {"start": 3, "end": 5, "c": False, "j": False, "p5": False, "p3": True, "subs": []}])}
        f = {"Type": "CDS", "loc": loc, "parent": "ACGTAC",
             "Attributes": None if attrs == "nil" else ({} if attrs == "empty" else {"gene": "x", "a": ""})}
        x = {"Sequence": "ACGTAC",
             "Meta": {"Name": "g", "Locus": {"Name": "g", "Circular": True},
                      "References": None if refs == "nil" else ([] if refs == "empty" else [{"Authors": "A"}]),
                      "Other": None if other == "nil" else ({} if other == "empty" else {"COMMENT": "c"})},
             # the attrs / subs dimension needs a feature to live in: keep one unless the list is nil / empty
             "Features": None if feats == "nil" else ([] if feats == "empty" else [f])}
        if feats != "some" and (attrs != "nil" or subs != "nil"):
            continue
        yield x

# ---------------------------------------------------------------- GenBank / GFF file texts

def esc_text(s):
    out = []
    for c in s:
        if ord(c) > 126 or c == "\\":
            out.append("\\u{%X}" % ord(c))
        else:
            out.append(c)
    return "".join(out)

MAXSPAN = [None]   # set while writing genome-sized files: features stay short so that GetSequence replies stay small

def gb_loc(r, n, depth=0):
    a = r.randint(1, max(n, 1)); b = r.randint(1, max(n, 1))
    a, b = min(a, b), max(a, b)
    if MAXSPAN[0] is not None:
        b = min(b, a + r.randint(0, MAXSPAN[0]))
    u = r.random()
    if depth < 3 and u < 0.25:
        return "complement(" + gb_loc(r, n, depth + 1) + ")"
    if depth < 3 and u < 0.5:
        return "join(" + ",".join(gb_loc(r, n, depth + 1) for _ in range(r.randint(2, 3))) + ")"
    if u < 0.58:
        return str(a)
    s = "%d..%d" % (a, b)
    if r.random() < 0.15:
        s = "<" + s
    if r.random() < 0.15:
        s = s.replace("..", "..>")
    return s

GB_TEXT = ["pUC cloning vector.", ".", "synthetic DNA construct", "Escherichia coli str. K-12", "x", "lacZ fragment",
           "promoter for the E. coli lac operon", "a rather long value that has to be wrapped over several lines of the flat "
           "file because it does not fit into the fifty-eight columns that a qualifier line offers", "1", "other DNA"]

def gb_text(r, nonascii):
    if r.random() < 0.15:
        t = r.choice(NUMERIC)
        if all(33 <= ord(c) <= 126 for c in t):
            return t
    if nonascii and r.random() < 0.3:
        return r.choice(["gène product", "中文 note", "β-galactosidase \U0001f9ec", "Ünal, J. & Şahin <lab>", "line\u2028separator",
                         "e\u0301 combining a\u030a", "ﬁ ligature ①", "\U00020bb7田"])
    return r.choice(GB_TEXT)

def gb_file(r, nonascii=False, wild=False, n=None, nfeat=None, seq=None):
    """a GenBank flat file.  Plain (default): the standard layout, which genbank.Parse and Build must accept
    (such cases are `strict`).  wild: constructs at or beyond the edge of what the parser handles (CRLF, qualifiers
    without value or quotes, doubled quotes, order()/^/remote locations, BASE COUNT / CONTIG lines)"""
    if n is None:
        n = r.choice([0, 1, 9, 10, 59, 60, 61, 120, 187, 600] + ([1200] if wild else []))
    if seq is None:
        seq = randword(r, "acgt", n)
    n = len(seq)
    name = r.choice(["pUC19", "puc19.gbk", "X", "NC_000913", "sample_1"])
    shape = r.choice(["circular", "linear", ""])
    lines = ["LOCUS       %-16s %11d bp    %-6s  %-8s %s %s" % (name, n, r.choice(["DNA", "RNA", "mRNA", "ss-DNA"]), shape,
                                                                r.choice(["SYN", "BCT", "UNA", "PLN"]), r.choice(["22-OCT-2019", "01-JAN-1980"]))]
    def block(key, text, indent=12):
        words = text.split(" ")
        cur, out = "", []
        for w in words:
            if cur and len(cur) + 1 + len(w) > 66:
                out.append(cur); cur = w
            else:
                cur = (cur + " " + w) if cur else w
        out.append(cur)
        lines.append(key.ljust(indent) + out[0])
        for o in out[1:]:
            lines.append(" " * indent + o)
    for key in ["DEFINITION", "ACCESSION", "VERSION", "KEYWORDS"]:
        if r.random() < 0.85:
            block(key, gb_text(r, nonascii))
    if r.random() < 0.8:
        block("SOURCE", gb_text(r, False))
        block("  ORGANISM", gb_text(r, False))
    for i in range(r.choice([0, 1, 2])):
        block("REFERENCE", "%d  (bases 1 to %d)" % (i + 1, n))
        for sub in ["  AUTHORS", "  TITLE", "  JOURNAL", "  PUBMED", "  REMARK"]:
            if r.random() < 0.6:
                block(sub, gb_text(r, nonascii))
    for key in ["COMMENT", "DBLINK", "PRIMARY"]:
        if r.random() < 0.35:
            block(key, gb_text(r, nonascii))
    lines.append("FEATURES             Location/Qualifiers")
    for _ in range(r.choice([0, 1, 2, 4, 9]) if nfeat is None else nfeat):
        loc = gb_loc(r, n)
        if wild and r.random() < 0.3:
            a = r.randint(1, max(n, 1))
            loc = r.choice(["order(%d..%d,%d)" % (a, a + 3, a + 9), "%d^%d" % (a, a + 1), "J00194.1:%d..%d" % (a, a + 5),
                            "join(%d..%d,J00194.1:1..5)" % (a, a + 2), "%d.%d" % (a, a + 4), "complement(%d)" % a])
        lines.append("     " + r.choice(["source", "CDS", "gene", "misc_feature", "primer_bind", "rep_origin"]).ljust(16) + loc)
        for _ in range(r.choice([0, 1, 2, 3])):
            q = r.choice(["label", "note", "gene", "product", "translation", "codon_start", "db_xref"])
            v = gb_text(r, nonascii)
            text = '/%s="%s"' % (q, v)
            if wild:
                u = r.random()
                if u < 0.15:
                    text = "/pseudo"
                elif u < 0.3:
                    text = "/codon_start=%d" % r.randint(1, 3)
                elif u < 0.4:
                    text = '/note="he said ""%s"" twice"' % v
                elif u < 0.45:
                    text = '/%s=""' % q
            first = True
            while text:
                lines.append(" " * 21 + text[:58])
                text = text[58:]
    if wild and r.random() < 0.3:
        lines.append("BASE COUNT     %d a %d c %d g %d t" % (seq.count("a"), seq.count("c"), seq.count("g"), seq.count("t")))
    if wild and r.random() < 0.15:
        lines.append("CONTIG      join(%s.1:1..%d)" % (name, n))
    lines.append("ORIGIN" + ("      " if wild and r.random() < 0.3 else ""))
    for i in range(0, n, 60):
        chunk = seq[i:i + 60]
        lines.append("%9d %s" % (i + 1, " ".join(chunk[j:j + 10] for j in range(0, len(chunk), 10))))
    lines.append("//")
    nl = "\r\n" if wild and r.random() < 0.2 else "\n"
    text = nl.join(lines)
    if r.random() < 0.7:
        text += nl
    return text

def gff_file(r, nonascii=False, wild=False, n=None, nfeat=None, seq=None):
    """a GFF3 file; wild: comment lines, blank lines, %-escapes, CRLF, no ##FASTA section, an attribute without `=`"""
    if n is None:
        n = r.choice([0, 1, 69, 70, 71, 140, 150, 700])
    if seq is None:
        seq = randword(r, "ACGT", n)
    n = len(seq)
    name = r.choice(["U00096.3", "chr1", "ctg123", "x"])
    lines = ["##gff-version " + r.choice(["3", "3.1.26", "3 ", "3.0", "03", "3e0"]), "##sequence-region %s %d %d" % (name, r.choice([1, 1, 5]), n)]
    for _ in range(r.choice([0, 1, 2, 5, 12]) if nfeat is None else nfeat):
        a = r.randint(1, max(n, 1)); b = r.randint(1, max(n, 1))
        if MAXSPAN[0] is not None:
            a, b = min(a, b), min(max(a, b), min(a, b) + r.randint(0, MAXSPAN[0]))
        if wild and r.random() < 0.2:
            lines.append(r.choice(["# a comment", "", "##species https://example.org/taxon?id=511145", "#!processor x"]))
        attrs = []
        for k in r.sample(["ID", "Name", "gene", "product", "note", "Parent", "db_xref"], r.randint(1, 4)):
            v = r.choice(["thrL", "b0001", "GO:0009088 - threonine", "leader%3B Amino acid", "1", "a,b,c", ""]
                         + [t for t in NUMERIC if all(33 <= ord(c) <= 126 for c in t)])
            if nonascii and r.random() < 0.3:
                v = r.choice(["gène", "中", "\U0001f9ec x", "Ünal & Şahin <lab>", "x\u2028y", "e\u0301", "\U00020bb7田"])
            if wild and r.random() < 0.3:
                v = r.choice(["GO:0009088 %2D threonine%3B x%3Dy", "a%2Cb", "%09tab", "100%"])
            attrs.append(k + "=" + v)
        if wild == "flag":
            attrs.append("flag")
        lines.append("\t".join([r.choice([name, "other"]), r.choice(["feature", "GenBank", "."]),
                                r.choice(["gene", "CDS", "exon", "region"]), str(min(a, b)), str(max(a, b)),
                                r.choice([".", "0.5", "1e-10"] + [t for t in NUMERIC if all(33 <= ord(c) <= 126 for c in t)]), r.choice(["+", "-", ".", "?"]), r.choice([".", "0", "1", "2", "+1", "01"]),
                                ";".join(attrs)]))
    if not (wild and r.random() < 0.2):
        lines.append("###")
        lines.append("##FASTA")
        lines.append(">" + name + r.choice(["", " description text"]))
        w = r.choice([60, 70, 80]) if wild else 70
        for i in range(0, n, w):
            lines.append(seq[i:i + w])
    nl = "\r\n" if wild and r.random() < 0.2 else "\n"
    return nl.join(lines) + nl

# ---------------------------------------------------------------- cases

def conv_block(r, fmt, n_conv):
    mk = gb_file if fmt == "gbk" else gff_file
    for i in range(n_conv):
        if i % 10 == 9:      # valid non-ASCII text in values
            yield ["conv", fmt, esc_text(mk(r, nonascii=True))]
        elif i % 3 == 2:     # edge-of-format constructs: the parser may reject them (then the case is a named skip)
            yield ["conv", fmt, esc_text(mk(r, wild=True))]
        else:                # plain well-formed file: must be converted
            yield ["conv", fmt, esc_text(mk(r)), "strict"]

# 61-letter unit x k: 1 200 053 (> 1 MiB), 4 200 033 (> 4 MiB), 16 777 257 (> 16 MiB), 67 109 760 (> 64 MiB) letters.
# Measured: the 67 M value takes the Lean driver 2 min to render and 3 min / 9.6 GB to judge, the harness 13 s.
GENOME_K = [19673, 68853, 275037, 1100160]
TIMEOUT_MS = 180000

def cases(seed, tier):
    _TIER[0] = tier
    r = rng(seed, "C15")
    quick = tier == "quick"
    # the empty value, and one maximal hand-written value
    yield ["rt", canon({})]
    # genome-sized values first (they land in the first shard; the genome-sized files are at the end)
    gunit = randword(r, "ACGT", 61)
    for k in (GENOME_K[:1] if quick else GENOME_K):
        yield ["rt", canon(big_value(r, gunit, k, 6))]
    for x in collection_grid():
        yield ["rt", canon(x)]
    # (the GenBank files come before the random values, the GFF files after them: the check splits the case list
    # into contiguous shards, and this keeps the shards of similar weight)
    yield from conv_block(r, "gbk", 500 if quick else 15000)
    n_rt = 1600 if quick else 60000
    for i in range(n_rt):
        maxdepth = 4 if quick else r.choice([2, 4, 4, 6])
        yield ["rt", canon(rsequence(r, maxdepth))]
    # printable-ASCII values: here the writers' models (C03 / C14) applied to the model's views must print
    # what the real genbank.Build / gff.Build print (the tie behind convert_same_gbk / convert_same_gff)
    PLAIN[0] = True
    try:
        for i in range(n_rt // 4 - n_rt // 10):
            yield ["rt", canon(rsequence(r, 4))]
    finally:
        PLAIN[0] = False
    for i in range(n_rt // 10):
        yield ["rt", canon(clean_value(r))]
    # map keys whose UTF-8 (= code point) order differs from their UTF-16 order, in one map
    yield ["rt", canon({"Meta": {"Other": {"\ue000": "a", "\uffff": "b", "\U00010000": "c", "\U0010ffff": "d", "~": "e", "": "f"}},
                        "Features": [{"Attributes": {"\uffff": "1", "\U00010000": "2", "\ue000": "3"},
                                      "loc": {"start": 0, "end": 0, "c": False, "j": False, "p5": False, "p3": False, "subs": None},
                                      "parent": ""}]})]
    # every string field at once through every special and every numeric-looking text: a codec attached to any
    # single field (number canonicalisation, trimming, case folding, escaping) changes the value
    for t in TRICKY + NONASCII + NUMERIC:
        yield ["rt", canon(all_fields(t))]
    # one string field at a time through every special text (escaping / UTF-8 layer)
    for s in TRICKY + NONASCII + (["".join(chr(c) for c in range(1, 128))] if True else []):
        yield ["rt", canon({"Description": s, "Sequence": "ACGT", "Meta": {"Definition": s, "Other": {s: s}},
                            "Features": [{"Name": s, "Attributes": {s: s, "k": s},
                                          "loc": {"start": 0, "end": 4, "c": False, "j": False, "p5": False, "p3": False, "subs": None},
                                          "parent": "ACGT"}]})]
    if not quick:
        # every BMP code point and a sample of the higher planes, 256 per string
        cps = [c for c in range(0, 0x10000) if not (0xd800 <= c <= 0xdfff)] + [r.randint(0x10000, 0x10ffff) for _ in range(4096)]
        for i in range(0, len(cps), 256):
            yield ["rt", canon({"Description": "".join(chr(c) for c in cps[i:i + 256])})]
        # large values
        for n in [2000, 20000]:
            seq = randword(r, "ACGT", n)
            x = rsequence(r, 4)
            x["Sequence"] = seq
            x["Features"] = [rfeature(r, seq, 4) for _ in range(40)]
            yield ["rt", canon(x)]
    for i in range(900 if quick else 6000):
        yield ["dec", canon(rsequence(r, 3)), str(r.randint(0, 10 ** 6))]
    yield from conv_block(r, "gff", 500 if quick else 15000)
    # records above bufio.Scanner's 64 KiB token limit (the JSON form holds the whole sequence in one line),
    # through every path: Marshal/Parse, Write/Read of a file, MarshalIndent/Unmarshal
    big = [70000] if quick else [70000, 100000, 100000, 131073]
    for n in big:
        seq = randword(r, "ACGT", n)
        x = rsequence(r, 3)
        x["Sequence"] = seq
        x["Features"] = [rfeature(r, seq, 3) for _ in range(3 if quick else 40)]
        yield ["rt", canon(x)]
        yield ["conv", "gbk", esc_text(gb_file(r, n=n, nfeat=4)), "strict"]
        yield ["conv", "gff", esc_text(gff_file(r, n=n, nfeat=4)), "strict"]
    # genome-sized records (a 1 MiB or 4 MiB buffer / token limit anywhere in Write / Read / Parse must show):
    # the sequence is a 61-letter unit repeated (canon carries it as r<count>*s<unit>), features are short
    unit = randword(r, "ACGT", 61)
    MAXSPAN[0] = 80
    try:
        for fmt, k in ([("gbk", GENOME_K[0]), ("gff", GENOME_K[0])] if quick else
                       [(f, k) for f in ("gbk", "gff") for k in GENOME_K[:2]]):
            if fmt == "gbk":
                yield ["conv", "gbk", esc_text(gb_file(r, seq=unit.lower() * k, nfeat=5)), "strict"]
            else:
                yield ["conv", "gff", esc_text(gff_file(r, seq=unit * k, nfeat=5)), "strict"]
    finally:
        MAXSPAN[0] = None
    if quick:
        # (the second genome-sized value of the quick tier goes to the last shard: balance)
        yield ["rt", canon(big_value(r, gunit, GENOME_K[1], 6))]
    # the `key without =` attribute that gff.Parse rejects: a stream of its own (named skip), not a share of the wild files
    for i in range(5 if quick else 50):
        yield ["conv", "gff", esc_text(gff_file(r, wild="flag", nfeat=2))]
    if not quick:
        # a value with many features / references / map entries (slice growth well beyond 8)
        seq = randword(r, "ACGT", 5000)
        x = rsequence(r, 2)
        x["Sequence"] = seq
        x["Features"] = [rfeature(r, seq, 2) for _ in range(1500)]
        x["Meta"]["References"] = [{k: rstr(r) for k in REF_F} for _ in range(300)]
        x["Meta"]["Other"] = {"K%04d" % i: rstr(r) for i in range(500)}
        yield ["rt", canon(x)]
        yield ["conv", "gbk", esc_text(gb_file(r, n=3000, nfeat=400)), "strict"]
        yield ["conv", "gff", esc_text(gff_file(r, n=3000, nfeat=400)), "strict"]

RULE = ("rt: the zero value; every combination of nil / empty / non-empty at the five kinds of collection (Features, References, "
        "Other, Attributes, SubLocations); random annotated sequences (0-5 features, location trees to depth 4 (thorough: 6) with "
        "complement/join/partial flags and nil or empty leaves, evaluable and out-of-range coordinates incl. int64 extremes, "
        "linked / nil / foreign parent pointers, nil-empty-populated maps and reference lists, strings drawn from plain words, "
        "JSON-special text (quotes, backslash, <>&, control characters incl. NUL, U+2028/9, U+FFFD) and non-ASCII of 2, 3 and 4 "
        "UTF-8 bytes; values inside the judge domains of C03 / C14 (a tenth as many as random ones) on which the writer "
        "models are compared with the real writers; numeric-looking text in forms a number-canonicalising codec would alter (1e-5, 12.30, 100.0, +1, 007, "
        ".5, 5., -0, 1e400, NaN, Inf, ...); every string field at once through each special / non-ASCII / numeric text; "
        "a quarter as many printable-ASCII values on which the C03/C14 writer models are compared with the real "
        "writers); up to 40 features, 30 references, 40 map entries, identical features / references / map values, strings of "
        "300 to 9000 characters in any field; map keys in UTF-8 vs UTF-16 order; a 70 000-letter sequence; GENOME-SIZED values "
        "of 1 200 053 and 4 200 033 letters (thorough: also 16 777 257 and 67 109 760, the largest record of the check; 100 000 / 131 073 "
        "letters, 1500 features, 300 references, 500 map entries, every BMP scalar value). conv: GenBank and GFF files from a "
        "small independent writer: plain well-formed files (`strict`: must be converted; sizes to 600 bp, up to 9 / 12 features; "
        "one of 70 000 bp and one of 1 200 053 bp per format, thorough also 4 200 033 bp, 131 073 bp and 400 features), every tenth with valid non-ASCII values, a third with "
        "edge-of-format constructs (CRLF, valueless / unquoted / doubled-quote qualifiers, order()/^/remote locations, BASE COUNT, "
        "CONTIG, comments, %-escapes, no ##FASTA) that the parser may reject (named skip). dec cases are outside the quantifier "
        "(correspondence only). non-trivial = the value has a feature or a non-empty string; distinct by case text")
EXHAUSTIVE = {"quick": False, "thorough": False}
TRUSTED_BASE = ["encoding/json's text layer = the Lean printers (Base/JVal.lean: `print` = Marshal's compact text with Go >= 1.22's escapes "
                "\\\" \\\\ \\b \\f \\n \\r \\t \\u00XX \\u003c \\u003e \\u0026 \\u2028 \\u2029, `printIndent` = MarshalIndent(v, \"\", \" \")) and "
                "reader (Base/JsonRead.lean): proved to round-trip (Lemmas/JsonText.lean); that Go writes the same bytes and, on "
                "those texts, reads the same values is corresponded on every case. UTF-8 encoding is below the model (strings are "
                "code-point lists; the theorems also quantify over non-scalar values such as 0xD800 that have no Go counterpart)",
                "harness/cmd/extract-io/gen_c15.go: the JSON member name of each field is observed from json.Marshal/Unmarshal of "
                "the compiled types, kinds from reflect",
                "canonical value syntax (ops_c15.go, reflect-driven) used to move poly.Sequence values between Go and Lean",
                "Model/GenbankBuild.lean (C03) and Model/Gff.lean (C14) as models of genbank.Build / gff.Build, and "
                "Model/PolyJsonViews.lean as the list of fields those writers read: tied by C03/C14's own correspondence and, here, by "
                "comparing model-writer(view x) with the real writer's text on every printable-ASCII rt case"]
ASSUMPTIONS = ["NAMED EXCLUSION invalid-utf8: 'non-ASCII text' in the quantifier is read as valid Unicode text. A Go string that is not "
               "valid UTF-8 (e.g. a Latin-1 byte in a GenBank/GFF file, which the parsers pass through byte for byte) is outside "
               "it: encoding/json replaces each offending byte by U+FFFD by design, so such a value does not survive and "
               "Build-after-JSON differs from Build-before. The model's strings are code-point lists and cannot hold such a value; "
               "the driver classes such parser outputs `skip:invalid-utf8` (reached on purpose by gen/corpus/C15/invalid-utf8.case) "
               "and does not judge them",
               "GetSequence is modelled on ASCII parent text (one byte per code point; sequences are nucleotide / protein letters): "
               "`relinked` / `relinked_reports` carry that hypothesis, `relinked_any` covers any text for any report function; on "
               "non-ASCII parents the check compares the real GetSequence before and after only",
               "maps are represented key-sorted with distinct keys in the model (a Go map has no order)",
               "the writers' models (C03/C14) are compared with the real writers only inside the domains in which C03 / C14 judge them "
               "(Spec.GbStrict.wfSeqJ with a named record; Spec.GffLayout.wfBuild; printable ASCII, no overflow in Start+1): what Build "
               "prints for a nameless record, an empty sequence, odd feature keys … is not this property's subject; outside those domains the conversion "
               "clause rests on the general theorem convert_same plus byte comparison of the real writers' outputs on every case",
               "json.Unmarshal's case-insensitive member matching and duplicate-member behaviour are not modelled (no document "
               "written by json.Marshal for these types needs them: tags_nodup)"]
PARTIAL = ["third clause outside printable ASCII: convert_same_gbk / convert_same_gff (and the _pipe variants) are theorems about the "
           "C03 / C14 models of genbank.Build / gff.Build applied to the fields those writers read; these models are claimed "
           "(and corresponded) on printable-ASCII values without integer overflow only. For values with other text the clause is "
           "proved for every writer that respects value equality (convert_same); that the two real writers do is checked by byte "
           "comparison of their outputs before and after the round trip on every case, not proved",
           "the JSON text layer: proved for the Lean printers and reader (json_text_roundtrip / json_indent_roundtrip / "
           "json_layout_roundtrip: the reader reads back every value written compactly, in MarshalIndent's layout, or under any "
           "blank-only layout; text_roundtrip* / text_unmarshal (Marshal's text) and write_text_* (MarshalIndent's text): clause 1 as Parse(text(Marshal x)), Read(file(Write x)) and "
           "Unmarshal(text(MarshalIndent x))). What stays trusted is that encoding/json IS those printers and that reader on the "
           "texts they write: json.Marshal's bytes equal `print`'s text and the file polyjson.Write leaves equals `printIndent`'s "
           "text, both compared byte for byte on every case (`marshal-text`, `write-text`); json.Unmarshal / polyjson.Parse read "
           "those texts like the reader (compared on every case). Strings are code-point lists: the theorems also cover lists no "
           "Go string holds (surrogates, values above 0x10FFFF); Go strings are the scalar-value lists; the UTF-8 encoding of "
           "text into bytes is below the model"]
TECHNIQUE = ("Lean 4 proof over a model of json.Marshal / json.Unmarshal / polyjson.Parse / AddFeature / GetSequence whose struct "
             "table (fields, JSON member names, kinds) is regenerated from the compiled types; decide on the table, structural "
             "induction over values and location trees; conversion clause instantiated for the C03 / C14 writer models through "
             "field views; differential correspondence incl. the real JSON text")
LEVEL_TEXT = ("Kernel-checked for all values (any strings, integers, list lengths, nesting depth): unmarshal_marshal (Unmarshal∘Marshal "
              "is the identity up to nil parent pointers, nil-ness of every collection included), parse_marshal (exact result of "
              "polyjson.Parse∘Marshal), roundtrip / roundtrip_exact / roundtrip_spec / unmarshal_equiv, the same at the level of JSON TEXT for the Lean printer and "
              "reader (json_string_roundtrip, json_int_roundtrip, json_text_roundtrip, json_indent_roundtrip, json_layout_roundtrip: "
              "read(print v) = v for every JSON value, compact, in MarshalIndent's layout and under any blank-only layout; "
              "text_roundtrip_exact / text_roundtrip / text_roundtrip_self / text_unmarshal: Parse(text(Marshal x)) = x; write_text_roundtrip_exact / "
              "_roundtrip / _self / _unmarshal: Read(file(Write x)) = x and Unmarshal(text(MarshalIndent x)) = x), relinked_parent, relinked_any "
              "(any report function of parent text and location, any text), relinked_reports / relinked (the GetSequence model, ASCII "
              "parent text), getSeq_nil_empty, convert_same (any writer respecting value equality) and its instances convert_same_gbk, "
              "convert_same_gff, convert_same_gbk_pipe, convert_same_gff_pipe for the models of genbank.Build (C03, every map iteration "
              "order) and gff.Build (C14) applied to the writers' views of the value; tags_nodup, fields_expected, only_parent_dropped, "
              "plain_fields, no_custom_codecs, codecs_cover_structs, field_types_listed are decided on the table re-extracted on every run, and the round-trip lemmas are re-evaluated against it, "
              "so a changed tag / dropped field / colliding name breaks a proof obligation. The model is tied to the code by comparing, "
              "per case, the real json.Marshal and MarshalIndent texts (parsed by a Lean JSON reader) with toJ, the real polyjson.Parse "
              "of the real and of the model-printed JSON with polyjsonParse, Write/Read through a file, GetSequence before and after, "
              "genbank.Build / gff.Build before and after and against the writer models on the views; the conversion clause is "
              "additionally judged by byte equality on generated GenBank and GFF files through all three paths of `poly convert` "
              "(Marshal/Parse, Write/Read, MarshalIndent/Unmarshal), every step guarded separately: a step that fails after the direct "
              "build succeeded is a FAIL, as is any panic / error / crash / race / timeout reply.")
LEVEL_NOTE = ("Trusted: Lean kernel; extractor and harness; encoding/json's text layer (corresponded only); the C03/C14 writer models and "
              "the field views (corresponded). A struct that gains a field: no case fails for it (values are also compared field by field by reflection in the harness, and the "
              "known fields by the spec relation), but the run ends with `VIOLATION ... no-failing-input-found` naming fields_expected "
              "and the correspondence `model-knows-every-field`: the model and the theorems do not cover the new member until it is "
              "added to them - an alarm about the proof, not about the code. GetSequence is corresponded with its model only where "
              "the location evaluates (coordinates inside the sequence) and only on features linked to the value; elsewhere only "
              "before = after is judged. ACCEPTED FALSE ALARM: adding `omitempty` to a field keeps the property true (a missing "
              "member decodes to the zero value; nil and empty collections are equal values) and the model follows it (encStruct "
              "omits empty values, so correspondence and judge stay green), but plain_fields and the table-evaluated round-trip lemmas "
              "no longer check: the run ends with `VIOLATION ... no-failing-input-found` naming those obligations. Exact preservation "
              "of nil-vs-empty (unmarshal_marshal, and the canon comparison of the parsed value) is deliberately stronger than 'equal "
              "value'; the judge itself identifies nil and empty. Plain generated files are `strict`: a parser or direct writer that "
              "rejects one fails the case instead of silently shrinking the judged set; only edge-of-format files may be skipped "
              "(classes skip:parser-*, skip:direct-build-*), and invalid UTF-8 is the named exclusion skip:invalid-utf8.")
HARNESS_BIN = "run-io"
EXTRACT_BINS = ["extract-io"]

# the same requests executed 8 at a time in concurrent goroutines (check: PARALLEL / harness: VERIF_PAR)
import re as _re
_TIER = ["quick"]

def par_filter(line):
    """cases of the concurrent run: as the default (case lines below 20 000 characters), and in the quick tier without
    the genome-sized values (they would be rendered and judged a second time: 25 s)"""
    return len(line) < 20000 and (_TIER[0] != "quick" or _re.search(r" r\d+\*s", line) is None)

PARALLEL = {"quick": {"par": 8, "max_cases": 400}, "thorough": {"par": 8, "max_cases": 6000, "race": True}}
