"""C16 — REBASE parsing recovers every enzyme record and decodes suppliers."""
import re
from common import *

RULE = ("import cases: JSON values (absent keys, nulls, unknown keys, wrong types) read by the real json.Unmarshal into map[string]Enzyme "
        "and by the model's importJ; fixed listings of 257, 300 and 1000 records that are in the domain by construction in every seed; "
        "out-of-domain probes (earlier tag in a field, tag in the prose) drawn per LISTING with probability 0.04; "
        "listing cases: content (supplier table, enzyme records) and layout (header prose, indentation by blanks / tabs / none / mixed, "
        "shape and number of blank lines, final newline) are generated; the text is written by the independent Lean writer "
        "Spec.RebaseListing.listing and given to the real rebase.Parse, rebase.Read (through a file) and rebase.Export (token stream of "
        "the JSON as read by encoding/json, and json.Unmarshal back into map[string]Enzyme): 0..300 records, empty fields, 0..15 "
        "supplier letters per enzyme, 0..20 suppliers, repeated enzyme names; corpus: the sample file shipped with the package, "
        "recognised as a listing by re-rendering. non-trivial = at least one record; distinct by case text")
EXHAUSTIVE = {"quick": False, "thorough": False}
TRUSTED_BASE = ["Spec/RebaseListing.lean: the format-31 writer and `expectedMap` typed by hand from the format description in the file header",
                "encoding/json's text layer: trusted to be the printer (Base/JVal) and reader (Base/JsonRead) the text theorem is about; "
                "rebase.Export's bytes are compared byte for byte with that printer on every case",
                "Model/LineText.lean: strings.Split/Contains/TrimLeft, sort.Strings modelled on ASCII",
                "ioutil.ReadFile (rebase.Read) — exercised by the correspondence check only"]
ASSUMPTIONS = ["supplier code letters are ASCII (rune(trimmedString[0]) is a byte, the name is cut at byte 9; range over line[3:] yields "
               "runes); all other text may be any valid UTF-8",
               "a <7> letter that no line of the supplier table names is NOT constrained by the property; the code writes the empty name for it "
               "(one list entry per letter) and parse_listing states that as a fact about the code. The JUDGE demands only the names of the "
               "letters the table names, in order, and accepts any one string or no entry for an unnamed letter; a difference from the model "
               "confined to those slots is drift (class …/unknown-letter-drift), not a DIFF. About 5 % of the generated letters are outside the table",
               "text is a sequence of code points in model, spec and theorems (List Char; the JSON text a list of code points); UTF-8 encoding "
               "and decoding is below the model: 'byte for byte' comparisons are comparisons of the decoded strings the protocol carries",
               "nil and the empty list are identified (isoschizomers, suppliers): an empty <2> or <7> line denotes no isoschizomers / no suppliers",
               "the quantifier's 'generated listings' are TEXT: valid UTF-8. Bytes that are not UTF-8 (e.g. a Latin-1 name in <6>) are outside "
               "it; they are parsed byte-exactly but json.Marshal replaces them by U+FFFD, so Export does not parse back to the same map — "
               "recorded by the two rawhex cases (class rawhex/json-diff vs rawhex/json-same), no model",
               "a case outside the quantifier is not judged, EXCEPT that a timeout / crash / panic where the model predicts a normal return is a FAIL",
               "import cases (json.Unmarshal vs importJ) have no duplicate keys, no key equal to a field's key up to case, no null in place of an "
               "enzyme object or inside a string list (Go's rules for those are not part of importJ)",
               "every record of a listing has all eight lines <1>..<8> (format 31); the text is LF-terminated"]
PARTIAL = ["NARROWING of 'arbitrary header prose' and of free field text: parse_listing is proved, and cases are judged, for prose, supplier lines "
           "and further-reference lines WITHOUT any record tag <1>..<8> (noTags) and for field values without an EARLIER tag (dispatches k: "
           "no <j>, j < k, in the line of field k). rebase.Parse dispatches on strings.Contains in the order 1..8, so such text is filed "
           "under another field (a prose line 'see <8> below' stores a bogus entry; '<8>ref ... <2>' loses the record). A LATER tag inside "
           "an earlier field is in the domain, proved and sampled. The excluded shapes are sampled as out-of-domain probes (model drift only).",
           "the clause 'the JSON export parses back to the same map' is proved at the level of the TEXT for the Lean printer and reader of JSON "
           "(export_text_roundtrip: importText (exportText m) = m's entries, from JsonText.parse_print); what is TRUSTED is that "
           "encoding/json IS that printer and that reader — corresponded both ways on every case: rebase.Export's real bytes are compared "
           "byte for byte with exportText (incl. quotes, backslashes, &, <, >, control characters, U+2028, multi-byte UTF-8), Go's own "
           "Unmarshal+DeepEqual flag json-same is judged, and json.Unmarshal is compared with importJ on the import cases. For field bytes "
           "that are NOT valid UTF-8 (e.g. Latin-1) the clause is false of the code — json.Marshal writes U+FFFD — outside the quantifier "
           "(listings are text), recorded by the rawhex cases"]
TIMEOUT_MS = 8000

WORDS = ["New", "England", "Biolabs", "Takara", "Bio", "Inc.", "Ltd.", "(3/21)", "(11/20)", "Co.,", "Life", "Technologies", "-", "CHIMERx",
         "Acetobacter", "aceti", "ss", "M.", "Fukaya", "J.", "vol.", "56,", "pp.", "161-166.", "(1988)", "<ENZYME", "NAME>", "5'", "3'",
         "^", "<", ">", "<9>", "<0>", "<12>", "<a>", "1>", "<1", "Unpublished", "observations.", "ATCC", "49188", "=-=-=", "http://rebase.neb.com"]
SITE = "ACGTRYKMSWBDHVN^()/-0123456789,"
CODES = "BCEIJKMNOQRSVXYFGHUWZabcdefg0123456789*#@<>"
OUTSIDE = "!~?LPT\u00e9\u03b2"          # letters the generated tables never define (CODES has none of them)
TAGRE = re.compile(r"<[1-8]>")


SPECIAL = ['"', "\\", "&", "<", ">", "'", "/", "\u2028", "\x7f", "\u00e9", "\u00fc", "\u03b2", "\u4e2d", "\U0001F9EC", "\x01", "\x08", "\x0c", "\r", "`", "%", "{", "}", "[", "]"]


def phrase(r, lo=0, hi=8, special=0.25):
    ws = [r.choice(WORDS) for _ in range(r.randint(lo, hi))]
    if ws and r.random() < special:          # characters a JSON writer can get wrong: quotes, backslash, &, <, non-ASCII, control
        for _ in range(r.randint(1, 3)):
            i = r.randrange(len(ws))
            ws[i] = ws[i] + r.choice(SPECIAL) if r.random() < 0.5 else r.choice(SPECIAL) + ws[i]
    s = " ".join(ws)
    t = r.random()
    if t < 0.06:
        s = r.choice([" ", "  ", "\t"]) + s          # text is kept exactly as written, blanks included
    elif t < 0.12:
        s = s + r.choice([" ", "  ", "\t"])
    return TAGRE.sub("<>", s)


def with_tag(r, k, s):
    """field k's text, sometimes with a record tag inside: a LATER tag (j > k) is dispatched correctly by the code's
    switch order and is in the domain; an EARLIER tag (j < k) is filed under the wrong field — an out-of-domain probe
    that shows a reordered switch as model drift"""
    t = r.random()
    if t < 0.04 and k < 8:
        j = r.randint(k + 1, 8)
    elif t < 0.08 and k > 1 and getattr(r, "probe", False):     # only in listings chosen as out-of-domain probes
        j = r.randint(1, k - 1)
    else:
        return s
    cut = r.randint(0, len(s))
    return s[:cut] + "<%d>" % j + s[cut:]


def enzname(r):
    n = r.choice(["", "I-", "M.", "Nt."]) + randword(r, "ABCDEGHKMNPRSTX", 1) + randword(r, "abcdeiklmnoprstuvy", 2) + \
        randword(r, "0123456789", r.randint(0, 4)) + r.choice(["I", "II", "III", "IV", "V", ""])
    t = r.random()
    if t < 0.05:
        n = r.choice([" ", "\t"]) + n
    elif t < 0.10:
        n = n + r.choice([" ", "  "])
    elif t < 0.16:
        n = n + r.choice(SPECIAL) + r.choice(["", "x"])
    return n


def record(r, codes, names):
    name = enzname(r) if r.random() < 0.97 else ""
    if names and r.random() < 0.02:
        name = r.choice(names)          # a repeated name: the later record replaces the earlier entry
    names.append(name)
    name = with_tag(r, 1, name)
    t = r.random()
    niso = 0 if t < 0.3 else (1 if t < 0.5 else r.randint(2, 12))
    isos = [(enzname(r) if r.random() < 0.9 else phrase(r, 1, 2).replace(",", ".")) or "X" for _ in range(niso)]
    if niso >= 2 and r.random() < 0.05:
        isos[r.randrange(niso)] = ""              # "X,,Y": an empty name among others is kept as written
    if isos and r.random() < 0.05:
        isos[-1] = with_tag(r, 2, isos[-1])
    t = r.random()
    site = "" if t < 0.1 else (randword(r, SITE, r.randint(0, 20)) if t < 0.85 else phrase(r, 0, 3))
    if r.random() < 0.06:
        site = r.choice([" ", "\t", ""]) + site + r.choice([" ", ""])
    meth = r.choice(["", "", "3(6)", "2(5),-2(5)", "?(4)", " 3(6)", "3(6) ", phrase(r, 0, 2)])
    ncodes = 0 if (not codes or r.random() < 0.4) else r.randint(1, 15)
    def letters():
        # about 5 % of the letters are NOT in the listing's table (also a non-ASCII one): decoded to the empty name
        return "".join(r.choice(OUTSIDE) if r.random() < 0.05 else r.choice(codes) for _ in range(ncodes))
    cs = letters()
    while re.search(r"<[1-6]>", "<7>" + cs):
        cs = letters()
    if not codes and r.random() < 0.2:
        cs = "".join(r.choice(OUTSIDE) for _ in range(r.randint(1, 3)))      # letters although the table is empty
    nmore = r.choice([0, 0, 0, 1, 2, 4])
    more = [phrase(r, 1, 25) for _ in range(nmore)]
    forced = getattr(r, "forced56", None)
    org = forced.pop(0) if forced else phrase(r, 0, 4)
    src = forced.pop(0) if forced else phrase(r, 0, 3)
    return [name, str(niso)] + isos + [with_tag(r, 3, site), with_tag(r, 4, meth), with_tag(r, 5, org),
                                      with_tag(r, 6, src), cs, phrase(r, 0, 25), str(nmore)] + more


# Pairs of DIFFERENT organism-like strings that are EQUAL under a common 32-bit string hash (found by birthday search over
# ~10^5..10^6 generated names; `_h32` recomputes every hash at import, so a wrong entry fails loudly).  A parser that interns
# or de-duplicates field values by such a hash without comparing the text (seeded change C16-l: a string pool keyed by
# FNV-1a) returns the first string for the second record.  Random listings essentially never contain such a pair.
def _h32(kind, b):
    import zlib
    if kind == "crc32": return zlib.crc32(b)
    if kind == "adler32": return zlib.adler32(b)
    h = {"fnv1a32": 0x811c9dc5, "fnv1_32": 0x811c9dc5, "java31": 0, "djb2": 5381}[kind]
    for c in b:
        if kind == "fnv1a32": h = ((h ^ c) * 0x01000193) & 0xffffffff
        elif kind == "fnv1_32": h = ((h * 0x01000193) & 0xffffffff) ^ c
        elif kind == "java31": h = (h * 31 + c) & 0xffffffff
        else: h = (h * 33 + c) & 0xffffffff
    return h
HASH_TWINS = [("fnv1a32", "Neisseria xmbdpzxyi 985", "Thermus amwk ATCC 384"), ("fnv1a32", "Haemophilus sp. 3804", "Neisseria sp. 18860"),
              ("fnv1_32", "Bacillus aewaw strain 739", "Escherichia rrri ATCC 505"), ("crc32", "Haemophilus nkgwyoo RFL310", "Thermus iwhl ATCC 408"),
              ("adler32", "Haemophilus sp. 120", "Haemophilus sp. 201"), ("java31", "Arthrobacter pihemze 15", "Haemophilus yxwgtbqi ATCC 938"),
              ("djb2", "Streptomyces enhxjqb 914", "Neisseria qnpx strain 867")]
for _k, _a, _b in HASH_TWINS:
    assert _a != _b and _h32(_k, _a.encode()) == _h32(_k, _b.encode()), (_k, _a, _b)


def twins_case(r, twins):
    """a listing whose records carry hash-twin strings as organism AND as source (first of each pair, then the second,
    then the first again), between ordinary records"""
    forced = []
    for _k, a, b in twins:
        forced += [a, b, b, a, a, a]        # records: (org a, src b), (org b, src a), (org a, src a)
    r.forced56 = forced
    try:
        return listing_case(r, len(forced) // 2 + 2, probe=False)
    finally:
        r.forced56 = None


def listing_case(r, nrec, nsup=None, indent=None, probe=None):
    """probe: whether this LISTING is an out-of-domain probe (an earlier tag inside a field, a tag in the prose). Decided per
    listing, with a small probability, never for the fixed large listings — so that listings of every size are judged."""
    r.probe = (r.random() < 0.04) if probe is None else probe
    nsup = r.randint(0, 20) if nsup is None else nsup
    codes = r.sample(CODES, nsup)
    c = ["listing", str(nsup)]
    for ch in codes:
        c += [ch, phrase(r, 0, 5)]
    c.append(str(nrec))
    names = []
    for _ in range(nrec):
        c += record(r, codes, names)
    nprose = r.choice([0, 1, 5, 30])
    c.append(str(nprose))
    for _ in range(nprose):
        c.append(r.choice(["", " ", "    " + phrase(r), phrase(r), "REBASE codes for commercial sources of enzymes ", "REBASE version 104",
                           "<REFERENCES>only the primary references", "                K        Takara (1/98)"])
                 + ("  see <%d> below" % r.randint(1, 8) if r.probe and r.random() < 0.2 else ""))   # a tag in the prose: out-of-domain probe
    c.append(r.choice(["", "", "", " ", "\t", "  \t "]))                       # blank line shape
    c.append(r.choice(["                ", "\t", "\t\t", "", " \t ", "    "]) if indent is None else indent)
    c.append(str(r.choice([0, 0, 1, 3])))                                      # afterHeading
    c.append(",".join(str(r.choice([0, 0, 0, 1])) for _ in range(nsup)))       # tableGaps
    c.append(str(r.choice([0, 1, 1, 2])))                                      # afterTable
    c.append(",".join(str(r.choice([0, 1, 1, 1, 2])) for _ in range(nrec)))    # gaps
    c.append(r.choice(["true", "true", "false"]))
    return c


JSONKEYS = ["name", "isoschizomers", "recognitionSequence", "methylationSite", "microorganism", "source", "commercialAvailability",
            "references"]
LISTKEYS = {"isoschizomers", "commercialAvailability"}


def import_case(r):
    """a JSON value as a token list (see Driver/C16): an object of enzyme objects with absent keys, nulls, unknown keys, and now and
    then a value of the wrong type. No duplicate keys, no key that differs from a field's key only by case (Go matches those)."""
    toks = ["import"]
    if r.random() < 0.03:
        return toks + r.choice([["[", "]"], ["s:text"], ["{", "s:A", "s:not an object", "}"], ["{", "s:A", "[", "]", "}"]])
    toks.append("{")
    names = set()
    for _ in range(r.choice([0, 1, 1, 2, 5])):
        k = enzname(r)
        if k in names:
            continue
        names.add(k)
        toks += ["s:" + k, "{"]
        keys = [x for x in JSONKEYS if r.random() < 0.7] + [x for x in ["extra", "zzz", "Name2", "id"] if r.random() < 0.1]
        r.shuffle(keys)
        for key in keys:
            toks.append("s:" + key)
            t = r.random()
            if key not in JSONKEYS:
                toks += r.choice([["s:" + phrase(r, 0, 3)], ["null"], ["[", "s:a", "[", "]", "]"], ["{", "s:k", "null", "}"]])
            elif key in LISTKEYS:
                if t < 0.1:
                    toks.append("null")
                elif t < 0.13:
                    toks.append("s:" + phrase(r, 0, 2))          # wrong type: an error in Go and in importJ
                else:
                    toks += ["["] + ["s:" + (enzname(r) if r.random() < 0.8 else phrase(r, 0, 3)) for _ in range(r.choice([0, 1, 2, 5]))] + ["]"]
            else:
                if t < 0.1:
                    toks.append("null")
                elif t < 0.13:
                    toks += ["[", "s:x", "]"]                     # wrong type
                else:
                    toks.append("s:" + phrase(r, 0, 6))
        toks.append("}")
    toks.append("}")
    return toks


HEAD = "REBASE codes for commercial sources of enzymes"


def cases(seed, tier):
    r = rng(seed, "C16")
    yield ["readmissing", "x"]
    yield twins_case(r, HASH_TWINS)
    for t in HASH_TWINS:
        yield twins_case(r, [t])
    for ind in ["                ", "\t", ""]:
        for nrec in [0, 1, 2]:
            yield listing_case(r, nrec, indent=ind)
        yield listing_case(r, 3, nsup=0, indent=ind)
    n = 2500 if tier == "quick" else 8000
    for _ in range(n):
        yield listing_case(r, loglen(r, 1, 40))
    # more records than any fixed-size internal queue is likely to hold: in the domain by construction, in every seed
    for nrec in ([257, 300, 1000] if tier == "quick" else [257, 258, 300, 513, 1000, 3000]):
        yield listing_case(r, nrec, probe=False)
    for _ in range(4 if tier == "quick" else 60):
        yield listing_case(r, r.choice([100, 200, 300, 300]), probe=False)
    # json.Unmarshal against the value-level reader importJ (absent keys, null, unknown keys, wrong types)
    for _ in range(150 if tier == "quick" else 1500):
        yield import_case(r)
    # bytes that are not valid UTF-8 (Latin-1 u-umlaut in <6>) and the same name in UTF-8: recorded, no model
    yield ["rawhex", ("<1>A\n<2>\n<3>G^AATTC\n<4>\n<5>org\n<6>Kr\xfcger\n<7>\n<8>ref\n").encode("latin-1").hex()]
    yield ["rawhex", ("<1>A\n<2>\n<3>G^AATTC\n<4>\n<5>org\n<6>Kr\u00fcger\n<7>\n<8>ref\n").encode("utf-8").hex()]
    # probes outside the quantifier (never judged; drift of the model is reported as information)
    yield ["raw", ""]
    yield ["raw", "<1>A\n<2>\n<3>G^AATTC\n<4>\n<5>org\n<6>src\n<7>\n<8>ref mentioning <2> in its text\n"]          # a tag inside a value
    yield ["raw", HEAD + "\n\n    N  short\n\n<1>A\n<2>\n<3>\n<4>\n<5>\n<6>\n<7>N\n<8>r\n"]                       # supplier line shorter than 9
    yield ["raw", HEAD + "\n    N        NEB\n\n<1>A\n<2>\n<3>\n<4>\n<5>\n<6>\n<7>N\n<8>r\n"]                     # no blank line after the heading
    yield ["raw", HEAD + "\r\n\r\n    N        NEB\r\n\r\n<1>A\r\n<2>\r\n<3>\r\n<4>\r\n<5>\r\n<6>\r\n<7>N\r\n<8>r\r\n"]  # CRLF
    yield ["raw", HEAD + "\n\n    N        NEB\n\n<1>A\n<2>\n<3>\n<4>\n<5>\n<6>\n<7>NQ\n<8>r\n"]                 # a letter that is not in the table
    yield ["raw", HEAD + "\n\n    N        NEB\n\n<1>A\n<8>r\n<1>B\n<3>x\n"]                                      # incomplete records
    yield ["raw", "see <8> below\n<1>A\n<2>\n<3>\n<4>\n<5>\n<6>\n<7>\n<8>r\n"]                                    # a tag in the prose


TECHNIQUE = ("Lean 4 proof over an executable model of rebase.Parse (the supplier-table state machine and the tag dispatch, statement by "
             "statement, slice panics explicit) and of Export at the level of JSON values driven by the struct tags regenerated with "
             "reflect; independent format-31 writer as spec; differential correspondence incl. the distributed sample file")
LEVEL_TEXT = ("parse_listing: for every supplier table, record list and layout satisfying the decidable predicate wfListing (any number of "
              "records and suppliers, any prose, indentation by blanks and/or tabs, any number of blank lines) Parse(listing …) returns "
              "exactly expectedMap — one entry per record keyed by its name, the eight fields as written (no isoschizomers for an empty <2>, "
              "since fix a3fb5a0), every supplier letter decoded through the listing's own table (parse_listing_entries for distinct names). export_roundtrip: importJ (exportJ m) is m in "
              "sorted key order, for every map with distinct keys (parse_export_roundtrip for the map Parse returns); export_text_roundtrip / "
              "parse_export_text_roundtrip: the same through the JSON TEXT (printer of Base/JVal, reader of Base/JsonRead). tags_shape / "
              "tags_nodup are decided on the regenerated struct-tag table. The distributed sample is shown on every run to be "
              "`listing sups recs ℓ` for the content the recogniser extracts (checked by re-rendering), hence inside the theorem's domain.")
LEVEL_NOTE = ("Trusted: Lean kernel; the hand-written model's faithfulness is sampled by the correspondence check (entries field by field, "
              "Read through a file, Export's bytes byte for byte against the model's printer, Unmarshal back in Go, json.Unmarshal against importJ); encoding/json's text layer; non-ASCII input is outside the model.")
HARNESS_BIN = "run-io"
EXTRACT_BINS = ["extract-io"]

# the same requests executed 8 at a time in concurrent goroutines (check: PARALLEL / harness: VERIF_PAR)
PARALLEL = {"quick": {"par": 8, "max_cases": 4000}, "thorough": {"par": 8, "max_cases": 40000, "race": True}}
