"""C16 — REBASE parsing recovers every enzyme record and decodes suppliers."""
import re
from common import *

RULE = ("listing cases: content (supplier table, enzyme records) and layout (header prose, indentation by blanks / tabs / none / mixed, "
        "shape and number of blank lines, final newline) are generated; the text is written by the independent Lean writer "
        "Spec.RebaseListing.listing and given to the real rebase.Parse, rebase.Read (through a file) and rebase.Export (token stream of "
        "the JSON as read by encoding/json, and json.Unmarshal back into map[string]Enzyme): 0..300 records, empty fields, 0..15 "
        "supplier letters per enzyme, 0..20 suppliers, repeated enzyme names; corpus: the sample file shipped with the package, "
        "recognised as a listing by re-rendering. non-trivial = at least one record; distinct by case text")
EXHAUSTIVE = {"quick": False, "thorough": False}
TRUSTED_BASE = ["Spec/RebaseListing.lean: the format-31 writer and `expectedMap` typed by hand from the format description in the file header",
                "encoding/json's text layer (escaping, UTF-8): the export is compared as the token stream json.Decoder yields, the theorem "
                "export_roundtrip is about JSON values",
                "Model/LineText.lean: strings.Split/Contains/TrimLeft, sort.Strings modelled on ASCII",
                "ioutil.ReadFile (rebase.Read) — exercised by the correspondence check only"]
ASSUMPTIONS = ["inputs are ASCII (rune(trimmedString[0]) is a byte; range over line[3:] yields runes)",
               "free text (prose, supplier names, field values) contains no record tag <1>..<8> that would be dispatched before the "
               "line's own tag (Spec.RebaseListing.dispatches / noTags); the parser dispatches on strings.Contains, so such text is read "
               "as another field — recorded as an observation in notes/findings/C16.md, outside the quantifier by this reading"]
PARTIAL = []

WORDS = ["New", "England", "Biolabs", "Takara", "Bio", "Inc.", "Ltd.", "(3/21)", "(11/20)", "Co.,", "Life", "Technologies", "-", "CHIMERx",
         "Acetobacter", "aceti", "ss", "M.", "Fukaya", "J.", "vol.", "56,", "pp.", "161-166.", "(1988)", "<ENZYME", "NAME>", "5'", "3'",
         "^", "<", ">", "<9>", "<0>", "<12>", "<a>", "1>", "<1", "Unpublished", "observations.", "ATCC", "49188", "=-=-=", "http://rebase.neb.com"]
SITE = "ACGTRYKMSWBDHVN^()/-0123456789,"
CODES = "BCEIJKMNOQRSVXYFGHUWZabcdefg0123456789*#@<>"
TAGRE = re.compile(r"<[1-8]>")


def phrase(r, lo=0, hi=8):
    s = " ".join(r.choice(WORDS) for _ in range(r.randint(lo, hi)))
    t = r.random()
    if t < 0.06:
        s = r.choice([" ", "  ", "\t"]) + s          # text is kept exactly as written, blanks included
    elif t < 0.12:
        s = s + r.choice([" ", "  ", "\t"])
    return TAGRE.sub("<>", s)


def enzname(r):
    return r.choice(["", "I-", "M.", "Nt."]) + randword(r, "ABCDEGHKMNPRSTX", 1) + randword(r, "abcdeiklmnoprstuvy", 2) + \
        randword(r, "0123456789", r.randint(0, 4)) + r.choice(["I", "II", "III", "IV", "V", ""])


def record(r, codes, names):
    name = enzname(r) if r.random() < 0.97 else ""
    if names and r.random() < 0.02:
        name = r.choice(names)          # a repeated name: the later record replaces the earlier entry
    names.append(name)
    t = r.random()
    niso = 0 if t < 0.3 else (1 if t < 0.5 else r.randint(2, 12))
    isos = [enzname(r) or "X" for _ in range(niso)]
    site = randword(r, SITE, r.randint(0, 20)) if r.random() < 0.9 else ""
    meth = r.choice(["", "", "3(6)", "2(5),-2(5)", "?(4)"])
    ncodes = 0 if (not codes or r.random() < 0.4) else r.randint(1, 15)
    cs = "".join(r.choice(codes) for _ in range(ncodes))
    while TAGRE.search(cs):
        cs = "".join(r.choice(codes) for _ in range(ncodes))
    nmore = r.choice([0, 0, 0, 1, 2, 4])
    more = [phrase(r, 1, 25) for _ in range(nmore)]
    return [name, str(niso)] + isos + [site, meth, phrase(r, 0, 4), phrase(r, 0, 3), cs, phrase(r, 0, 25), str(nmore)] + more


def listing_case(r, nrec, nsup=None, indent=None):
    nsup = r.randint(0, 20) if nsup is None else nsup
    codes = r.sample(CODES, nsup)
    c = ["listing", str(nsup)]
    for ch in codes:
        c += [ch, phrase(r, 0, 5)]
    c.append(str(nrec))
    names = []
    for _ in range(nrec):
        c += record(r, codes, names)
    nprose = r.choice([0, 1, 5, 30])
    c.append(str(nprose))
    for _ in range(nprose):
        c.append(r.choice(["", " ", "    " + phrase(r), phrase(r), "REBASE codes for commercial sources of enzymes ", "REBASE version 104",
                           "<REFERENCES>only the primary references", "                K        Takara (1/98)"]))
    c.append(r.choice(["", "", "", " ", "\t", "  \t "]))                       # blank line shape
    c.append(r.choice(["                ", "\t", "\t\t", "", " \t ", "    "]) if indent is None else indent)
    c.append(str(r.choice([0, 0, 1, 3])))                                      # afterHeading
    c.append(",".join(str(r.choice([0, 0, 0, 1])) for _ in range(nsup)))       # tableGaps
    c.append(str(r.choice([0, 1, 1, 2])))                                      # afterTable
    c.append(",".join(str(r.choice([0, 1, 1, 1, 2])) for _ in range(nrec)))    # gaps
    c.append(r.choice(["true", "true", "false"]))
    return c


HEAD = "REBASE codes for commercial sources of enzymes"


def cases(seed, tier):
    r = rng(seed, "C16")
    yield ["readmissing", "x"]
    for ind in ["                ", "\t", ""]:
        for nrec in [0, 1, 2]:
            yield listing_case(r, nrec, indent=ind)
        yield listing_case(r, 3, nsup=0, indent=ind)
    n = 2500 if tier == "quick" else 8000
    for _ in range(n):
        yield listing_case(r, loglen(r, 1, 40))
    for _ in range(6 if tier == "quick" else 60):
        yield listing_case(r, r.choice([100, 200, 300, 300]))
    # probes outside the quantifier (never judged; drift of the model is reported as information)
    yield ["raw", ""]
    yield ["raw", "<1>A\n<2>\n<3>G^AATTC\n<4>\n<5>org\n<6>src\n<7>\n<8>ref mentioning <2> in its text\n"]          # a tag inside a value
    yield ["raw", HEAD + "\n\n    N  short\n\n<1>A\n<2>\n<3>\n<4>\n<5>\n<6>\n<7>N\n<8>r\n"]                       # supplier line shorter than 9
    yield ["raw", HEAD + "\n    N        NEB\n\n<1>A\n<2>\n<3>\n<4>\n<5>\n<6>\n<7>N\n<8>r\n"]                     # no blank line after the heading
    yield ["raw", HEAD + "\r\n\r\n    N        NEB\r\n\r\n<1>A\r\n<2>\r\n<3>\r\n<4>\r\n<5>\r\n<6>\r\n<7>N\r\n<8>r\r\n"]  # CRLF
    yield ["raw", HEAD + "\n\n    N        NEB\n\n<1>A\n<2>\n<3>\n<4>\n<5>\n<6>\n<7>NQ\n<8>r\n"]                 # a letter that is not in the table
    yield ["raw", HEAD + "\n\n    N        NEB\n\n<1>A\n<8>r\n<1>B\n<3>x\n"]                                      # incomplete records
    yield ["raw", "see <8> below\n<1>A\n<2>\n<3>\n<4>\n<5>\n<6>\n<7>\n<8>r\n"]                                    # a tag in the prose


TECHNIQUE = ("Lean 4 proof over an executable model of rebase.Parse (the supplier-table state machine and the tag dispatch, statement by "
             "statement, slice panics explicit) and of Export at the level of JSON values driven by the struct tags regenerated with "
             "reflect; independent format-31 writer as spec; differential correspondence incl. the distributed sample file")
LEVEL_TEXT = ("parse_listing: for every supplier table, record list and layout satisfying the decidable predicate wfListing (any number of "
              "records and suppliers, any prose, indentation by blanks and/or tabs, any number of blank lines) Parse(listing …) returns "
              "exactly expectedMap: one entry per record keyed by its name, the eight fields as written, every supplier letter decoded "
              "through the listing's own table (parse_listing_entries for distinct names). export_roundtrip: importJ (exportJ m) is m in "
              "sorted key order, for every map with distinct keys (parse_export_roundtrip for the map Parse returns). tags_shape / "
              "tags_nodup are decided on the regenerated struct-tag table. The distributed sample is shown on every run to be "
              "`listing sups recs ℓ` for the content the recogniser extracts (checked by re-rendering), hence inside the theorem's domain.")
LEVEL_NOTE = ("Trusted: Lean kernel; the hand-written model's faithfulness is sampled by the correspondence check (entries field by field, "
              "Read through a file, Export token stream, Unmarshal back in Go); encoding/json's text layer; non-ASCII input is outside the model.")
HARNESS_BIN = "run-io"
EXTRACT_BINS = ["extract-io"]
