"""C19 — melting temperatures follow the nearest-neighbour formula monotonically."""
import math, struct
from common import *

CGRID = [1e-9, 5e-7, 2e-5, 1e-3]        # oligo, mol/l   (1 nM .. 1 mM)
NAGRID = [1e-3, 5e-2, 0.2, 1.0]         # sodium         (1 mM .. 1 M)
MGGRID = [0.0, 1.5e-3, 0.1]             # magnesium      (0 .. 100 mM)

RULE = ("grid cases: every A/C/G/T sequence of length 2..Lf on the full 4x4x3 grid of (oligo, Na, Mg) = "
        "(1e-9,5e-7,2e-5,1e-3) x (1e-3,5e-2,0.2,1) x (0,1.5e-3,0.1) mol/l and every sequence of length Lf+1..Ls on a 2x2x2 "
        "sub-grid of adjacent grid values that rotates with the sequence index (quick: Lf=6, Ls=7 plus a seeded 1-in-64 "
        "sample of length 8; thorough: Lf=8, i.e. all 87376 sequences of length 2..8 on the full grid, 4.2 million calls); random axis/grid cases "
        "(length log-uniform to 200, random letter case, one axis of 3-6 values at least 5% apart through a random point, "
        "or a random 2x2x2 grid); pt cases = one random sequence in random case (25% self-complementary) at two random "
        "conditions (log-uniform oligo and Na, Mg = 0 in 30%) evaluated as given, upper-cased and lower-cased; mt cases = "
        "MeltingTemp / SantaLucia(defaults) / MarmurDoty on every sequence of length 1..Lm (quick 5, thorough 6) and on "
        "random sequences. non-trivial = sequence of length >= 2 (at least one neighbour pair) and, for grid cases, >= 2 "
        "grid points; distinct by case text. Sequences with other letters, the empty sequence and concentrations outside "
        "the ranges are run for correspondence only (not judged).")
EXHAUSTIVE = {"quick": False, "thorough": True}
TRUSTED_BASE = [
    "IEEE-754 binary64 and math.Log: the theorems are about exact real arithmetic (Mathlib Real.log); the Float instance of "
    "the same generic model is compared with the Go results at 1e-9 (absolute on dH/dS, relative on Tm)",
    "Spec/NearestNeighbor.lean: the ten duplex nearest-neighbour parameters and the three penalties typed by hand",
    "extract-primers: additivity of SantaLucia's (dH, dS) over init / symmetry / terminal / pair terms at Na = 1 M, Mg = 0 "
    "(then validated by the correspondence on every enumerated sequence)",
    "ASCII restriction: Go byte/rune behaviour on non-ASCII input is outside the model",
]
ASSUMPTIONS = ["inputs are ASCII", "concentrations are finite positive binary64 values in the stated ranges"]
PARTIAL = [
    "All theorems are about exact real arithmetic (the generic model instantiated at the reals with Real.log). That the "
    "float64 evaluation in Go stays within tolerance of the formula and remains strictly monotone is NOT proved (Lean's "
    "Float is opaque to the kernel); it is supported only by the grid / random correspondence and the judge, which checks "
    "strict monotonicity of the real float64 results between adjacent grid points and between random conditions at "
    "least 5% apart.",
]


def bits(x):
    return "%016x" % struct.unpack(">Q", struct.pack(">d", float(x)))[0]


def blist(xs):
    return ",".join(bits(x) for x in xs)


COMP = {"A": "T", "T": "A", "C": "G", "G": "C"}


def rc(w):
    return "".join(COMP[c] for c in reversed(w))


def subgrid(idx):
    """a 2x2x2 block of adjacent grid values, rotating with idx so that all blocks are used"""
    i = idx % (len(CGRID) - 1)
    j = (idx // 3) % (len(NAGRID) - 1)
    k = (idx // 9) % (len(MGGRID) - 1)
    return CGRID[i:i + 2], NAGRID[j:j + 2], MGGRID[k:k + 2]


def logu(r, lo, hi):
    return math.exp(r.uniform(math.log(lo), math.log(hi)))


def rand_cond(r):
    c = logu(r, 1e-9, 1e-3)
    na = logu(r, 1e-3, 1.0)
    mg = 0.0 if r.random() < 0.3 else (logu(r, 1e-5, 0.1) if r.random() < 0.7 else r.uniform(0, 0.1))
    return min(max(c, 1e-9), 1e-3), min(max(na, 1e-3), 1.0), min(mg, 0.1)


def rand_seq(r, maxlen=200, minlen=2):
    n = loglen(r, minlen, maxlen)
    if r.random() < 0.25:
        h = randword(r, ACGT, max(1, n // 2))
        w = h + rc(h)
    else:
        w = randword(r, ACGT, n)
    return w


def axis_values(r, lo, hi, k, zero_ok=False):
    """k ascending values in [lo, hi], neighbours at least 5% (and 1e-4 absolute for Mg) apart"""
    for _ in range(100):
        vs = sorted(logu(r, lo, hi) for _ in range(k))
        if zero_ok and r.random() < 0.5:
            vs[0] = 0.0
        if all(b >= a * 1.05 and (not zero_ok or b - a >= 1e-4) for a, b in zip(vs, vs[1:])):
            return vs
    return [lo, hi]


def cases(seed, tier):
    r = rng(seed, "C19")
    quick = tier == "quick"
    Lf, Ls, Lm = (6, 7, 5) if quick else (8, 8, 6)
    full = ["grid", None, blist(CGRID), blist(NAGRID), blist(MGGRID)]
    # --- exhaustive sequences on the grid
    idx = 0
    for w in words(ACGT, Lf, 2):
        yield ["grid", w, full[2], full[3], full[4]]
    for w in words(ACGT, Ls, Lf + 1):
        cl, nal, mgl = subgrid(idx); idx += 1
        yield ["grid", w, blist(cl), blist(nal), blist(mgl)]
    if quick:
        off = r.randrange(64)
        for n, w in enumerate(words(ACGT, 8, 8)):
            if n % 64 == off:
                cl, nal, mgl = subgrid(idx); idx += 1
                yield ["grid", w, blist(cl), blist(nal), blist(mgl)]
    # --- helpers on every short sequence
    for w in words(ACGT, Lm, 1):
        yield ["mt", w]
    # --- fixed probes: the suite's oligos, length 1, lower / mixed case
    for w in ["ACGATGGCAGTAGCATGC", "GTAAAACGACGGCCAGT", "GTCATAGCTGTTTCCTG", "acgatggcagtagcatgc", "AcGt", "A", "c", "GAATTC", "gaattc"]:
        yield ["mt", w]
        yield ["grid", w, full[2], full[3], full[4]]
        yield ["pt", w, bits(500e-9), bits(50e-3), bits(0.0), bits(1e-6), bits(0.1), bits(2e-3)]
    # --- random
    n = 1000 if quick else 20000
    for _ in range(n):
        w = randcase(r, rand_seq(r, minlen=1 if r.random() < 0.03 else 2))
        c, na, mg = rand_cond(r)
        c2, na2, mg2 = rand_cond(r)
        yield ["pt", w, bits(c), bits(na), bits(mg), bits(c2), bits(na2), bits(mg2)]
    for _ in range(n):
        w = randcase(r, rand_seq(r))
        c, na, mg = rand_cond(r)
        kind = r.randrange(4)
        k = r.randint(3, 6)
        if kind == 0:
            yield ["grid", w, blist(axis_values(r, 1e-9, 1e-3, k)), bits(na), bits(mg)]
        elif kind == 1:
            yield ["grid", w, bits(c), blist(axis_values(r, 1e-3, 1.0, k)), bits(mg)]
        elif kind == 2:
            yield ["grid", w, bits(c), bits(na), blist(axis_values(r, 1e-5, 0.1, k, zero_ok=True))]
        else:
            yield ["grid", w, blist(axis_values(r, 1e-9, 1e-3, 2)), blist(axis_values(r, 1e-3, 1.0, 2)),
                   blist(axis_values(r, 1e-5, 0.1, 2, zero_ok=True))]
    for _ in range(n // 2):
        yield ["mt", randcase(r, rand_seq(r))]
    # --- out-of-domain probes (correspondence only): empty, other letters, concentrations outside the ranges
    for w in ["", "N", "NN", "ACGU", "acgn", "AC GT", "SW", "WS", "ANT", "A-C", "RYKM", "acgtx"]:
        yield ["mt", w]
        yield ["pt", w, bits(500e-9), bits(50e-3), bits(0.0), bits(1e-6), bits(0.1), bits(2e-3)]
        yield ["grid", w, blist(CGRID[:2]), blist(NAGRID[:2]), blist(MGGRID[:2])]
    for (c, na, mg) in [(0.0, 0.05, 0.0), (5e-7, 0.0, 0.0), (-1e-6, 0.05, 0.0), (5e-7, -0.05, 0.0), (1.0, 5.0, 1.0),
                        (1e-12, 1e-6, 0.5), (4.0, 1.0, 0.0), (float("inf"), 0.05, 0.0)]:
        yield ["pt", "ACGTTGCA", bits(c), bits(na), bits(mg), bits(500e-9), bits(50e-3), bits(0.0)]
        yield ["pt", "GGATCA", bits(c), bits(na), bits(mg), bits(500e-9), bits(50e-3), bits(0.0)]


TECHNIQUE = ("Lean 4 proof over one generic model (number type as a parameter) instantiated at the reals for the theorems and "
             "at binary64 for the differential correspondence; nearest-neighbour table and penalties regenerated from the "
             "behaviour of the compiled code and decided equal to the hand-typed duplex parameters")
LEVEL_TEXT = ("Kernel-checked for every A/C/G/T oligo of any length in either letter case, over exact real arithmetic: the model's "
              "(Tm, dH, dS) equal the nearest-neighbour formula with indexed sums over i < N-1 (santaLucia_formula, nn_sum), the "
              "terminal term is present iff the last letter is A/T and the symmetry term / f = 1 iff the oligo is position-wise "
              "self-complementary, dH < 0 and the denominator dS + R ln(C/f) < 0 for all lengths >= 2 within C <= 1 mM, "
              "Na + 140 Mg <= 15 (regime), and Tm is STRICTLY increasing in each of the three concentrations there "
              "(tm_mono_oligo/na/mg). Case independence, concentration independence of dH and MeltingTemp = SantaLucia(defaults) are "
              "proved for the generic model, hence also for its binary64 instance. The parameter table and penalties are "
              "re-extracted from the running code (through SantaLucia at 1 M Na) on every run and re-decided against the typed "
              "duplex parameters. The step from real to float64 arithmetic is not proved: it is checked by correspondence on all "
              "87376 sequences of length 2..8 on a grid of conditions (thorough) and random sequences to length 200.")
LEVEL_NOTE = ("Trusted: Lean kernel + Mathlib's Real.log; the typed parameter set; extractor and correspondence harness; binary64 "
              "and math.Log behaviour (tested at 1e-9, monotonicity tested between adjacent grid points on the real outputs).")

HARNESS_BIN = "run-primers"
EXTRACT_BINS = ["extract-primers"]
