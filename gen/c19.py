"""C19 — melting temperatures follow the nearest-neighbour formula monotonically."""
import math, struct
from common import *

CGRID = [1e-9, 5e-7, 2e-5, 1e-3]        # oligo, mol/l   (1 nM .. 1 mM)
NAGRID = [1e-3, 5e-2, 0.2, 1.0]         # sodium         (1 mM .. 1 M)
MGGRID = [0.0, 1.5e-3, 0.1]             # magnesium      (0 .. 100 mM)

RESOLUTION = 1e-9   # relative separation of a log argument above which the judge demands a STRICT increase (Driver/C19.lean)

RULE = ("('exhaustive' in the thorough evidence refers to the enumerated sub-domain only: all sequences of length 2..8 on the "
        "fixed grid; everything else is sampled.) grid cases: every A/C/G/T sequence of length 2..Lf on the full 4x4x3 grid of (oligo, Na, Mg) = "
        "(1e-9,5e-7,2e-5,1e-3) x (1e-3,5e-2,0.2,1) x (0,1.5e-3,0.1) mol/l and every sequence of length Lf+1..Ls on a 2x2x2 "
        "sub-grid of adjacent grid values that rotates with the sequence index (quick: Lf=6, Ls=7 plus a seeded 1-in-64 "
        "sample of length 8; thorough: Lf=8, i.e. all 87376 sequences of length 2..8 on the full grid, 4.2 million calls); "
        "every sequence of length 2..Lc (quick 5, thorough 7) once more in random letter case on a sub-grid; "
        "random axis/grid cases (length log-uniform to 200, one axis of 3-6 values at least 5% apart through a random "
        "point, or a random 2x2x2 grid); CLOSE axis cases: 2-4 ascending values on one axis whose successive separations "
        "(relative change of the log argument C resp. Na+140Mg) are log-uniform from 1 ulp (1e-17) to 5% (quick 3000, "
        "thorough 120000 cases, i.e. > 10^5 adjacent pairs above and > 10^5 below the resolution 1e-9); pt cases = one "
        "random sequence at two conditions evaluated as given, upper-cased and lower-cased, the two conditions either "
        "independent random draws or (close pt) coordinate-wise ordered with 1 ulp..5% steps on a random subset of the axes "
        "in random order; mt cases = MeltingTemp / SantaLucia(defaults) / MarmurDoty on every sequence of length 1..Lm "
        "(quick 5, thorough 6), on random sequences, on sequences of the fixed lengths 31,32,33,63,64,65,66,100,127,128,129,130,192,"
        "193,200,256,257,500 (uniform / self-complementary / one mismatch from it; each as pt, 2x2x2 grid and mt case) and on one shuffled sequence per base composition (G+C count, length) "
        "for lengths 9..200 (thorough all 20k, quick a 1-in-8 sample). Random sequences: 25% exactly self-complementary, 15% one "
        "substitution (or one inserted middle base) away from self-complementary with the mismatch in the middle, at an "
        "end or anywhere, the rest uniform; letter case random / mirror-symmetric / all upper / all lower. Conditions: "
        "oligo and Na log-uniform over the ranges, Mg = 0 (30%), log-uniform 1e-9..0.1 (35%), log-uniform 1e-5..0.1 (21%) or "
        "uniform (14%). Judged monotonicity: every two points on a common axis line of a grid case and every ordered pair of a pt case: "
        "never decreasing, strictly increasing when the separation is >= 1e-9; in a grid case all pairs on a common axis line "
        "(not only neighbours) are judged. non-trivial = for grid cases >= 2 grid points (every judged case has a sequence of length >= 2, i.e. at least one "
        "neighbour pair); distinct by case text. Outside the quantifier, run for correspondence only (not judged, differences "
        "counted as drift): sequences with other letters, the empty sequence, a single letter (the quantifier starts at "
        "length 2), concentrations outside the ranges.")
EXHAUSTIVE = {"quick": False, "thorough": True}
TRUSTED_BASE = [
    "IEEE-754 binary64 and math.Log: the theorems are about exact real arithmetic (Mathlib Real.log); the Float instance of "
    "the same generic model is compared with the Go results at 1e-9 (absolute on dH/dS, relative on Tm)",
    "Spec/NearestNeighbor.lean: the ten duplex nearest-neighbour parameters and the three penalties typed by hand",
    "extract-primers: additivity of SantaLucia's (dH, dS) over init / symmetry / terminal / pair terms at Na = 1 M, Mg = 0 "
    "(then validated by the correspondence on every enumerated sequence)",
    "ASCII restriction: Go byte/rune behaviour on non-ASCII input is outside the model",
]
ASSUMPTIONS = ["inputs are ASCII", "concentrations are finite positive binary64 values in the stated ranges",
               "binary64 reading of 'strictly increases': never decreasing for any ordered pair of conditions; strictly "
               "increasing when a log argument (C, or Na + 140 Mg) grows by a relative 1e-9 or more (below that float64 "
               "results tie; ties are counted in the class histogram as '-tie')"]
PARTIAL = [
    "Every numeric clause is PROVED for the generic model over exact real arithmetic (Real.log) and only SAMPLED for "
    "float64 (Lean's Float is opaque to the kernel; no theorem relates the binary64 instance to the real one): "
    "(i) 'dH, dS are the nearest-neighbour sums plus the penalty and salt terms' - float64 results within 1e-9 absolute of "
    "the exact rational dH / of dS0 + 0.368(N-1)ln(Na+140Mg) on all generated cases; (ii) 'Tm = 1000 dH/(dS + R ln(C/f)) - "
    "273.15' - within 1e-9 relative; (iii) 'Tm strictly increases with oligo, Na, Mg' - over the reals a theorem on the whole "
    "range (tm_mono_oligo/na/mg with regime); for float64 it is FALSE as stated (conditions a few ulp apart tie, e.g. "
    "ACGATGGCAGTAGCATGC at C = 5e-7 and C + 5 ulp) and the judge checks instead: no decrease for any ordered pair, strict "
    "increase when the relative separation of the log argument is >= 1e-9 (bound derived in Driver/C19.lean: Tm moves by "
    ">= 0.1*sep K against <= 1e-12 K of rounding; confirmed on > 10^5 close pairs above the bound per thorough run, none "
    "tying; all pairs on an axis line are judged, not only neighbours). So float64 monotonicity is: proved over exact real "
    "arithmetic, float64 step tested by correspondence and judge. tm_weak_mono_any_arith is a CONDITIONAL theorem (never "
    "decreasing for any arithmetic that propagates NaN and is monotone whenever both results are non-NaN, under sign "
    "conditions on the computed values; instantiated over the reals by tm_weak_mono_real); it explains why rounding "
    "preserves the order but it is NOT evidence about float64: that IEEE-754 arithmetic with Go's math.Log satisfies its "
    "hypothesis (MonoArith) cannot be proved in Lean (Float is opaque) and is not assumed anywhere in the check; "
    "(iv) MarmurDoty: proved over the reals, float64 compared bit-exactly (all intermediate values are small "
    "integers). NOT partial: case independence, concentration independence of dH and MeltingTemp = SantaLucia(defaults) are "
    "proved for every number type, hence for the binary64 instance of the model itself; the table lemmas are decided on "
    "the regenerated table.",
]


def bits(x):
    return "%016x" % struct.unpack(">Q", struct.pack(">d", float(x)))[0]


def blist(xs):
    return ",".join(bits(x) for x in xs)


COMP = {"A": "T", "T": "A", "C": "G", "G": "C"}


def rc(w):
    return "".join(COMP[c] for c in reversed(w))


def subgrid(idx):
    """a 2x2x2 block of adjacent grid values, rotating with idx so that all blocks are used"""
    i = idx % (len(CGRID) - 1)
    j = (idx // 3) % (len(NAGRID) - 1)
    k = (idx // 9) % (len(MGGRID) - 1)
    return CGRID[i:i + 2], NAGRID[j:j + 2], MGGRID[k:k + 2]


def logu(r, lo, hi):
    return math.exp(r.uniform(math.log(lo), math.log(hi)))


def rand_mg(r):
    u = r.random()
    if u < 0.30:
        return 0.0
    if u < 0.65:
        return logu(r, 1e-9, 0.1)      # includes (0, 1e-5)
    if u < 0.86:
        return logu(r, 1e-5, 0.1)
    return r.uniform(0, 0.1)


def rand_cond(r):
    c = logu(r, 1e-9, 1e-3)
    na = logu(r, 1e-3, 1.0)
    mg = rand_mg(r)
    return min(max(c, 1e-9), 1e-3), min(max(na, 1e-3), 1.0), min(mg, 0.1)


def near_selfcomp(r, n):
    """one substitution (even length) or one inserted middle base (odd length) away from self-complementary"""
    h = randword(r, ACGT, max(2, n // 2))
    w = list(h + rc(h))
    if r.random() < 0.2:
        w.insert(len(h), r.choice(ACGT))           # odd length: can never be self-complementary
        return "".join(w)
    u = r.random()
    if u < 0.4:
        i = len(h) - 1 + r.randrange(2)            # the two middle positions
    elif u < 0.7:
        i = r.choice([0, 1, len(w) - 2, len(w) - 1])
    else:
        i = r.randrange(len(w))
    w[i] = r.choice([x for x in ACGT if x != w[i]])
    return "".join(w)


def rand_seq(r, maxlen=200, minlen=2):
    n = loglen(r, minlen, maxlen)
    u = r.random()
    if u < 0.25:
        h = randword(r, ACGT, max(1, n // 2))
        return h + rc(h)
    if u < 0.40 and n >= 4:
        return near_selfcomp(r, n)
    return randword(r, ACGT, n)


def symcase(r, s):
    """a letter-case pattern that is mirror-symmetric: case(i) = case(N-1-i)"""
    n = len(s)
    up = [r.random() < 0.5 for _ in range((n + 1) // 2)]
    return "".join(c.upper() if up[min(i, n - 1 - i)] else c.lower() for i, c in enumerate(s))


def anycase(r, s):
    u = r.random()
    if u < 0.5:
        return randcase(r, s)
    if u < 0.75:
        return symcase(r, s)
    return s.upper() if u < 0.87 else s.lower()


def axis_values(r, lo, hi, k, zero_ok=False):
    """k ascending values in [lo, hi], neighbours at least 5% (and 1e-4 absolute for Mg) apart"""
    for _ in range(100):
        vs = sorted(logu(r, lo, hi) for _ in range(k))
        if zero_ok and r.random() < 0.5:
            vs[0] = 0.0
        if all(b >= a * 1.05 and (not zero_ok or b - a >= 1e-4) for a, b in zip(vs, vs[1:])):
            return vs
    return [lo, hi]


def step_up(r, x, scale, hi):
    """the next value above x: x + scale*rho with rho log-uniform in [1e-17, 5e-2] (at least one ulp), capped at hi"""
    rho = 10 ** r.uniform(-17, math.log10(0.05))
    y = x + scale * rho
    if y <= x:
        y = math.nextafter(x, math.inf)
    return min(y, hi)


def close_axis(r, k):
    """(axis, values, fixed condition): k ascending values on one axis, successive separations of the log argument
    log-uniform from 1 ulp to 5%"""
    c, na, mg = rand_cond(r)
    axis = r.randrange(3)
    if axis == 0:
        c = min(c, 1e-3 / 1.2)
        vs = [c]
        for _ in range(k - 1):
            vs.append(step_up(r, vs[-1], vs[-1], 1e-3))
    elif axis == 1:
        na = min(na, 1.0 / 1.2)
        vs = [na]
        for _ in range(k - 1):
            vs.append(step_up(r, vs[-1], vs[-1] + 140 * mg, 1.0))
    else:
        mg = min(mg, 0.08)
        vs = [mg]
        for _ in range(k - 1):
            vs.append(step_up(r, vs[-1], (na + 140 * vs[-1]) / 140, 0.1))
    vs = sorted(set(vs))
    return axis, vs, (c, na, mg)


def close_cond(r, c, na, mg):
    """a condition >= (c, na, mg) coordinate-wise, 1 ulp .. 5% above it on a random non-empty subset of the axes"""
    while True:
        pick = [r.random() < 0.6 for _ in range(3)]
        if any(pick):
            break
    c2 = step_up(r, c, c, 1e-3) if pick[0] else c
    na2 = step_up(r, na, na + 140 * mg, 1.0) if pick[1] else na
    mg2 = step_up(r, mg, (na + 140 * mg) / 140, 0.1) if pick[2] else mg
    return c2, na2, mg2


def cases(seed, tier):
    r = rng(seed, "C19")
    quick = tier == "quick"
    Lf, Ls, Lm, Lc = (6, 7, 5, 5) if quick else (8, 8, 6, 7)
    full = ["grid", None, blist(CGRID), blist(NAGRID), blist(MGGRID)]
    # --- exhaustive sequences on the grid
    idx = 0
    for w in words(ACGT, Lf, 2):
        yield ["grid", w, full[2], full[3], full[4]]
    for w in words(ACGT, Ls, Lf + 1):
        cl, nal, mgl = subgrid(idx); idx += 1
        yield ["grid", w, blist(cl), blist(nal), blist(mgl)]
    if quick:
        off = r.randrange(64)
        for n, w in enumerate(words(ACGT, 8, 8)):
            if n % 64 == off:
                cl, nal, mgl = subgrid(idx); idx += 1
                yield ["grid", w, blist(cl), blist(nal), blist(mgl)]
    # --- the short sequences once more in random letter case
    for w in words(ACGT, Lc, 2):
        cl, nal, mgl = subgrid(idx); idx += 1
        yield ["grid", randcase(r, w), blist(cl), blist(nal), blist(mgl)]
    # --- helpers on every short sequence
    for w in words(ACGT, Lm, 1):
        yield ["mt", w]
    # --- fixed probes: the suite's oligos, length 1, lower / mixed case
    for w in ["ACGATGGCAGTAGCATGC", "GTAAAACGACGGCCAGT", "GTCATAGCTGTTTCCTG", "acgatggcagtagcatgc", "AcGt", "A", "c", "GAATTC", "gaattc"]:
        yield ["mt", w]
        yield ["grid", w, full[2], full[3], full[4]]
        yield ["pt", w, bits(500e-9), bits(50e-3), bits(0.0), bits(1e-6), bits(0.1), bits(2e-3)]
    # --- fixed lengths around block sizes a buffered implementation might use, the documented maximum and beyond
    for L in [31, 32, 33, 63, 64, 65, 66, 100, 127, 128, 129, 130, 192, 193, 200, 256, 257, 500]:
        for rep in range(3 if quick else 20):
            if rep % 3 == 1 and L % 2 == 0:
                h = randword(r, ACGT, L // 2)
                w = h + rc(h)
            elif rep % 3 == 2:
                w = near_selfcomp(r, L)[:L].ljust(L, "A")
            else:
                w = randword(r, ACGT, L)
            w = anycase(r, w)
            c, na, mg = rand_cond(r)
            c2, na2, mg2 = rand_cond(r)
            cl, nal, mgl = subgrid(idx); idx += 1
            yield ["pt", w, bits(c), bits(na), bits(mg), bits(c2), bits(na2), bits(mg2)]
            yield ["grid", w, blist(cl), blist(nal), blist(mgl)]
            yield ["mt", w]
    # --- random
    n = 1000 if quick else 20000
    for _ in range(n):
        w = anycase(r, rand_seq(r, minlen=1 if r.random() < 0.03 else 2))
        c, na, mg = rand_cond(r)
        c2, na2, mg2 = rand_cond(r)
        yield ["pt", w, bits(c), bits(na), bits(mg), bits(c2), bits(na2), bits(mg2)]
    for _ in range(n):
        w = anycase(r, rand_seq(r))
        c, na, mg = rand_cond(r)
        kind = r.randrange(4)
        k = r.randint(3, 6)
        if kind == 0:
            yield ["grid", w, blist(axis_values(r, 1e-9, 1e-3, k)), bits(na), bits(mg)]
        elif kind == 1:
            yield ["grid", w, bits(c), blist(axis_values(r, 1e-3, 1.0, k)), bits(mg)]
        elif kind == 2:
            yield ["grid", w, bits(c), bits(na), blist(axis_values(r, 1e-5, 0.1, k, zero_ok=True))]
        else:
            yield ["grid", w, blist(axis_values(r, 1e-9, 1e-3, 2)), blist(axis_values(r, 1e-3, 1.0, 2)),
                   blist(axis_values(r, 1e-5, 0.1, 2, zero_ok=True))]
    # --- close conditions: 1 ulp .. 5% apart on each axis (ties allowed below the resolution, decreases never)
    nclose = 3000 if quick else 120000
    for _ in range(nclose):
        w = anycase(r, rand_seq(r))
        axis, vs, (c, na, mg) = close_axis(r, r.randint(2, 4))
        if axis == 0:
            yield ["grid", w, blist(vs), bits(na), bits(mg)]
        elif axis == 1:
            yield ["grid", w, bits(c), blist(vs), bits(mg)]
        else:
            yield ["grid", w, bits(c), bits(na), blist(vs)]
    for _ in range(nclose // 3):
        w = anycase(r, rand_seq(r))
        c, na, mg = rand_cond(r)
        c2, na2, mg2 = close_cond(r, c, na, mg)
        if r.random() < 0.5:
            yield ["pt", w, bits(c), bits(na), bits(mg), bits(c2), bits(na2), bits(mg2)]
        else:
            yield ["pt", w, bits(c2), bits(na2), bits(mg2), bits(c), bits(na), bits(mg)]
    for _ in range(n // 2):
        yield ["mt", anycase(r, rand_seq(r))]
    # --- Marmur-Doty / MeltingTemp over base compositions: (G+C count k, length m), shuffled, 9 <= m <= 200
    #     (thorough: every one of the 20k compositions; quick: a seeded 1-in-8 sample)
    off = r.randrange(8)
    num = 0
    for m in range(9, 201):
        for k in range(m + 1):
            num += 1
            if quick and num % 8 != off:
                continue
            gc = [r.choice("GC") for _ in range(k)]
            at = [r.choice("AT") for _ in range(m - k)]
            w = gc + at
            r.shuffle(w)
            yield ["mt", anycase(r, "".join(w))]
    # --- out-of-domain probes (correspondence only): empty, other letters, concentrations outside the ranges
    for w in ["", "N", "NN", "ACGU", "acgn", "AC GT", "SW", "WS", "ANT", "A-C", "RYKM", "acgtx"]:
        yield ["mt", w]
        yield ["pt", w, bits(500e-9), bits(50e-3), bits(0.0), bits(1e-6), bits(0.1), bits(2e-3)]
        yield ["grid", w, blist(CGRID[:2]), blist(NAGRID[:2]), blist(MGGRID[:2])]
    for (c, na, mg) in [(0.0, 0.05, 0.0), (5e-7, 0.0, 0.0), (-1e-6, 0.05, 0.0), (5e-7, -0.05, 0.0), (1.0, 5.0, 1.0),
                        (1e-12, 1e-6, 0.5), (4.0, 1.0, 0.0), (float("inf"), 0.05, 0.0)]:
        yield ["pt", "ACGTTGCA", bits(c), bits(na), bits(mg), bits(500e-9), bits(50e-3), bits(0.0)]
        yield ["pt", "GGATCA", bits(c), bits(na), bits(mg), bits(500e-9), bits(50e-3), bits(0.0)]


TECHNIQUE = ("Lean 4 proof over one generic model (number type as a parameter) instantiated at the reals for the theorems and "
             "at binary64 for the differential correspondence; nearest-neighbour table and penalties regenerated from the "
             "behaviour of the compiled code and decided equal to the hand-typed duplex parameters")
LEVEL_TEXT = ("PROVED (kernel-checked, every A/C/G/T oligo of any length in either letter case, exact real arithmetic): the model's "
              "(Tm, dH, dS) equal the nearest-neighbour formula with indexed sums over i < N-1 (santaLucia_formula, nn_sum), the "
              "terminal term is present iff the last letter is A/T and the symmetry term / f = 1 iff the oligo is position-wise "
              "self-complementary, dH < 0 and the denominator dS + R ln(C/f) < 0 for all lengths >= 2 within C <= 1 mM, "
              "Na + 140 Mg <= 15 (regime), and Tm is STRICTLY increasing in each of the three concentrations there "
              "(tm_mono_oligo/na/mg). PROVED for every number type, hence for the binary64 instance of the model: case "
              "independence, concentration independence of dH, MeltingTemp = SantaLucia(defaults). RE-DECIDED on every run: the "
              "parameter table and penalties re-extracted from the running code equal the typed duplex parameters. SAMPLED, not "
              "proved: every float64 step - values within 1e-9 of the formula, and monotonicity of the float64 results in the "
              "reading 'never decreasing for any ordered pair of conditions; strictly increasing when the log argument grows by "
              ">= 1e-9 relative' (float64 ties below that, so the literal strict clause holds for the real formula only) - on all "
              "87376 sequences of length 2..8 on a 4x4x3 grid (thorough), random sequences to length 200 incl. near-self-"
              "complementary ones, and > 10^5 pairs of conditions 1 ulp .. 5% apart per thorough run.")
LEVEL_NOTE = ("Trusted: Lean kernel + Mathlib's Real.log; the typed parameter set; extractor and correspondence harness; binary64 "
              "and math.Log behaviour (tested at 1e-9; weak monotonicity tested on every ordered pair generated, strictness "
              "above a relative separation of 1e-9).")

HARNESS_BIN = "run-primers"
EXTRACT_BINS = ["extract-primers"]

# the same requests executed 8 at a time in concurrent goroutines (check: PARALLEL / harness: VERIF_PAR)
PARALLEL = {"quick": {"par": 8, "max_cases": 4000}, "thorough": {"par": 8, "max_cases": 40000, "race": True}}
