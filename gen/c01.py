"""C01 — GenBank parsing returns exactly what a well-formed record states.

A case is an abstract record (or several) plus the layout choices of an independent writer, on one
protocol line (format: lean/PolyVerif/Driver/C01.lean).  The Lean side lays the file out with
Spec/GbLayout.lean `layoutFile`, so the text the real parser sees lies in the theorems' domain."""
from common import *
import string

RULE = ("(LOCUS: each of the twelve molecule types or none, topology / division / date / stated length present or absent, trailing "
        "blanks; REFERENCE with an empty range written with or without the two blanks; keys over all visible characters; "
        "quotation marks inside qualifier values: generated, compared with the model; that QUALIFIER is not judged — outside the quantifier — the rest of the record and file is) (locations: spans, single bases, complement, join, and the INSDC forms order/bond/gap/one-of, n.m, n^m, remote "
        "acc.v:a..b as text; qualifiers quoted, unquoted, value-less, keys with capitals and digits, repeated keys; empty standard "
        "blocks written or left out; extra keyword blocks in any of the 7 slots between LOCUS and FEATURES) "
        "abstract records laid out by the independent writer of Spec/GbLayout.lean: sequence 1..2000 letters (quick; a few to 2*10^4) "
        "/ 1..10^5 (thorough), every molecule type x topology x division, LOCUS gaps 1..12 blanks, lengths of 1-6 digits, "
        "0..40 features with 0..8 qualifiers (values over printable ASCII other than the double quote, with '/', '=', '//', leading/trailing "
        "blanks, long values wrapped at widths 20..79 or at random blanks, /translation cut mid-token), features without qualifiers, "
        "locations on 1..6 lines, 0..5 references (numbered by position or stating their own number: gaps, repeats, 0, descending, non-numeric tokens; REFERENCE line wrapped at its blanks) with optional AUTHORS/TITLE/JOURNAL/PUBMED/REMARK, 0..3 extra keyword blocks, "
        "1..5 records, with/without final newline, with/without the 10-line header, through Parse/ParseMulti/ParseFlat and the Read* "
        "wrappers. non-trivial = at least one feature or reference; distinct by case text")
EXHAUSTIVE = {"quick": False, "thorough": False}
TRUSTED_BASE = ["Spec/GbLayout.lean: the independent writer (NCBI flat-file columns) and the domain predicate wf, typed by hand",
                "scanners standing for the four regular expressions of parseLocus/getSequence (checked by correspondence only)",
                "ASCII restriction: Go rune/byte behaviour on non-ASCII input is outside the model"]
ASSUMPTIONS = ["inputs are ASCII",
               "qualifier values hold no double quote, as the quantifier says. The theorems (wfQual) also cover quotation marks INSIDE a value, "
               "returned verbatim, because C03's round trip needs them; a qualifier with such a value is generated and compared with the model "
               "but not judged (masked on both sides; every other field of the record and every other record of the file is judged; a "
               "difference from the model confined to such values is counted and printed as out-of-domain drift): whether a doubled quote inside a quoted value states one quote (the "
               "INSDC escape) or two is not decided by this property (genbank.Parse returns it verbatim and genbank.Build does not double)",
               "location text is one INSDC-shaped expression (atom or operator(loc,...), complement with exactly one operand — a restriction of "
               "the check's grammar, Go reads more): texts with unbalanced or stray parentheses are outside the domain (Spec isLocText); "
               "on those (e.g. a truncated `join(1..2,`) genbank.Parse PANICS in parseLocation (slice bounds) — the driver mirrors it with "
               "C02's parseLocation model (panic parity on every case, needed for the raw texts outside the domain). Inside the domain it "
               "is a theorem, not an assumption: Props.C02.parseLocation_total (isLocText s -> parseLocation s != panic, w-loc, 92d76cf) "
               "and its corollary Props.C01.parse_layout_locations_total (for every wfLoose record and layout the parser returns the "
               "record and parseLocation panics on none of its feature locations, so the driver's panic-parity branch never decides an "
               "in-domain case); Props.C02.parseLocation_panics_unclosed names the texts that do panic (a first '(' with no ')' after it)",
               "extra keyword blocks have pairwise distinct keywords (Meta.Other is a map; GenBank has one block per keyword)",
               "a SOURCE block written WITHOUT its ORGANISM line (empty organism, the writer leaves the empty line out as it may leave out "
               "every other block without text) is read as INSIDE the quantifier: the layout family omits empty DEFINITION / ACCESSION / "
               "VERSION / KEYWORDS blocks, which NCBI calls mandatory just as it does ORGANISM, and nothing in the property text singles "
               "ORGANISM out; judged (the defect found there, C01-source-without-organism, was repaired by 6ccbb58; the theorems cover the layout)",
               "numerals of a location text have at most 18 digits (Spec isLocTextB): strconv.Atoi clamps a numeral >= 2^63 to MaxInt64 and "
               "poly drops the range error, C02's model keeps the number; such texts are generated as drift probes only",
               "C01 compares the location text only; the parsed Location is property C02's (its model of parseLocation is the one the "
               "driver and parse_layout_locations_total use: that model corresponds to Go's parseLocation is C02's correspondence, not C01's)",
               "ioutil.ReadFile / gzip return the bytes written (Read* wrappers are checked by correspondence only)"]
HARNESS_BIN = "run-genbank"
EXTRACT_BINS = []
TIMEOUT_MS = 60000

WORDS = ("the of and a to in is for gene protein synthetic construct vector cloning sequence Escherichia coli K-12 strain "
         "plasmid pUC19 origin replication complete genome DNA RNA mRNA putative hypothetical binding site promoter forward "
         "primer lac operon Direct Submission J. Biol. Chem. 264:1-10 (1989) http://www.ncbi.nlm.nih.gov/ a/b x=y 5' 3' "
         "[1] {2} <3> semi;colon com,ma under_score at@sign 100% #tag ~ | \\ ^ * + ? ! $ & ` : . Bacteria; Proteobacteria; "
         "linear circular PRI BCT bp").split(" ")
TRAPS = ["AUTHORS", "TITLE", "JOURNAL", "PUBMED", "REMARK", "ORGANISM", "LOCUS", "DEFINITION", "ACCESSION", "VERSION",
         "KEYWORDS", "SOURCE", "REFERENCE", "FEATURES", "ORIGIN", "COMMENT", "path//"]
MOL4 = ["DNA", "mRNA", "tRNA", "rRNA"]
MOL12 = ["DNA", "genomic DNA", "genomic RNA", "mRNA", "tRNA", "rRNA", "other RNA", "other DNA", "transcribed RNA", "viral cRNA",
         "unassigned DNA", "unassigned RNA"]
DIVS = "PRI ROD MAM VRT INV PLN BCT VRL PHG SYN UNA EST PAT STS GSS HTG HTC ENV".split()
MONTHS = "JAN FEB MAR APR MAY JUN JUL AUG SEP OCT NOV DEC".split()
FKEYS = ["source", "gene", "CDS", "misc_feature", "primer_bind", "promoter", "rep_origin", "5'UTR", "-10_signal", "tRNA", "D-loop", "x",
         "a/b", "x=y", "/odd", "k\"q", "#1", "15_characters__"]
QKEYS = ["label", "note", "product", "gene", "locus_tag", "db_xref", "codon_start", "transl_table", "organism", "mol_type",
         "function", "inference", "bound_moiety", "standard_name", "k", "EC_number", "q2", "PCR_primers", "Note", "pseudo", "X9",
         "a-b", "x.y", "k:1", "5'end", "(k)", "#", "~t"]
EXTRA = ["COMMENT", "DBLINK", "PRIMARY", "CONTIG", "PROJECT", "BASE", "NID", "SEGMENT", "X", "ABCDEFGHIJ",
         "Comment2", "a-b", "x/y", "DBSOURCE", "ELEVENCHARS", "Z=1", "q\"r"]
PRINT_NOQ = "".join(chr(i) for i in range(32, 127) if chr(i) != '"')
AMINO = "ACDEFGHIKLMNPQRSTVWY"


def text(r, nwords, trap=0.0):
    """printable text without leading/trailing blank; mostly single blanks, sometimes double"""
    ws = []
    for _ in range(nwords):
        w = r.choice(TRAPS) if r.random() < trap else r.choice(WORDS)
        if w:
            ws.append(w)
    out = ""
    for i, w in enumerate(ws):
        if i:
            out += "  " if r.random() < 0.02 else " "
        out += w
    return out


def breaks(r, t, prefix_len, mode=None):
    """break positions (indices of blanks) — greedy wrap at some width, random blanks, all blanks, none"""
    blanks = [i for i, c in enumerate(t) if c == " "]
    if not blanks:
        return []
    mode = mode or r.choice(["greedy", "greedy", "greedy", "random", "all", "none"])
    if mode == "none":
        return []
    if mode == "all":
        return blanks
    if mode == "random":
        return [b for b in blanks if r.random() < 0.3]
    width = r.choice([20, 30, 40, 58, 68, 79]) - prefix_len
    width = max(width, 5)
    out, start, last = [], 0, None
    for i, c in enumerate(t + " "):
        if c == " ":
            if i - start > width and last is not None and last >= start:
                out.append(last)
                start = last + 1
            last = i
    return out


def cuts_(r, t, first):
    """cut positions for a /translation value"""
    mode = r.choice(["58", "58", "random", "none"])
    if mode == "none":
        return []
    if mode == "random":
        return [i for i in range(1, len(t)) if r.random() < 0.05]
    return list(range(first, len(t), 58))


def grammar_loc(r, depth=0):
    """a random expression of the domain's location grammar: atom | op(loc,...), complement with one operand"""
    def atom():
        return randword(r, "0123456789.<>^:abXZ", r.randint(1, 8))
    if depth >= 3 or r.random() < 0.45:
        return atom()
    op = r.choice(["join", "order", "complement", "bond", "gap", "oneof", "x", "", "JOIN", "complementx"])
    n = 1 if op == "complement" else r.randint(1, 4)
    return op + "(" + ",".join(grammar_loc(r, depth + 1) for _ in range(n)) + ")"


def location(r, n, depth=0):
    def span():
        a = r.randint(1, max(1, n))
        b = r.randint(a, max(a, n))
        k = r.random()
        if k < 0.1:
            return str(a)
        s = "%d..%d" % (a, b)
        if k < 0.2:
            s = "<" + s
        if 0.15 < k < 0.3:
            s = s.replace("..", "..>")
        return s
    k = r.random()
    if depth == 0 and k < 0.04:
        return grammar_loc(r)
    if k < 0.12:
        # INSDC forms the parser keeps as text only
        a = r.randint(1, max(1, n)); b = r.randint(a, max(a, n))
        return r.choice(["order(%d..%d,%d..%d)" % (a, b, a, b), "bond(%d,%d)" % (a, b), "gap(%d)" % a, "gap(unk100)",
                         "%d.%d" % (a, b), "%d^%d" % (a, a + 1), "J00194.1:%d..%d" % (a, b),
                         "join(J00194.1:%d..%d,%d..%d)" % (a, b, a, b), "order(complement(%d..%d),%d)" % (a, b, a),
                         "complement(order(%d..%d,%d..%d))" % (a, b, a, b), "oneof(%d,%d)" % (a, b), str(r.randint(0, 9)),
                         "join(%d.%d,<%d..>%d)" % (a, b, a, b), "-%d..%d" % (a, b),
                         "%d..999999999999999999" % a,                # 18 digits: the largest numeral of the domain (isLocTextB)
 "join(%d..%d,/x,%d)" % (a, b, a), "a/b", "%d..%d;x" % (a, b)])
    if depth >= 2 or k < 0.5:
        return span()
    if k < 0.7:
        return "complement(" + location(r, n, depth + 1) + ")"
    m = r.choice([2, 3, 4, 8, 15, 30]) if depth == 0 else r.randint(2, 4)
    return "join(" + ",".join(location(r, n, depth + 1) if r.random() < 0.2 else span() for _ in range(m)) + ")"


def loc_breaks(r, loc):
    commas = [i for i, c in enumerate(loc) if c == ","]
    if not commas:
        return []
    mode = r.choice(["greedy", "greedy", "random", "all", "none"])
    if mode == "none":
        return []
    if mode == "all":
        return commas
    if mode == "random":
        return [c for c in commas if r.random() < 0.3]
    out, start, last = [], 0, None
    for i, c in enumerate(loc):
        if c == ",":
            if i + 1 - start > 58 and last is not None:
                out.append(last)
                start = last + 1
            last = i
    return out


def qual_value(r, trap, quotes=False):
    k = r.random()
    if k < 0.1:
        return ""
    if k < 0.14:
        return r.choice(["1", "11", "other DNA", "taxon:562", "x=y=z", "a/b", "a=b/c d=e/f", " lead", "trail ", "=", "/"])
    if k < 0.145:
        return r.choice(["1", "11", "other DNA", "a/b", "x=y=z", "taxon:562", " lead", "trail ", "a // b", "/start", "=", "/", "see /note here", "a=b/c d=e/f"])
    if k < 0.2 and quotes:
        # quotation marks inside (not at either end), also next to '/' and at chunk ends: outside the property's quantifier ("values
        # over printable ASCII other than the double quote"), inside the theorems (C03 needs them); not judged, drift probes
        return r.choice(['say "hi" there', 'a "b" /c d', 'x" /y', 'the "quoted" word and "another" /one more', 'k="v"/w', 'a""b', '5\' "x"/ y'])
    if k < 0.45:
        return randword(r, PRINT_NOQ, r.randint(1, 30))
    if k < 0.55:
        # words and raw printable tokens, with '/' starting words
        ws = []
        for _ in range(r.randint(2, 40)):
            ws.append(r.choice(["/x", "/", "a/b", "k=v", "a/b/c", "=", "//"]) if r.random() < 0.004 else r.choice(WORDS) or "w")
        return " ".join(ws)
    return text(r, r.randint(1, 60), trap) or "v"


def nats(l):
    return ",".join(str(x) for x in l)


def record(r, tier, big=False, trap=0.001, small=False, repeat=False):
    if big:
        n = loglen(r, 1000, 100000 if tier == "thorough" else 20000)
    elif small:
        n = r.randint(1, 130)
    else:
        n = loglen(r, 1, 2000)
    if r.random() < 0.15:
        n = r.choice([1, 2, 9, 10, 11, 59, 60, 61, 99, 100, 120, 121, 600, 601])
    seq = randword(r, r.choice(["acgt", "acgt", "ACGT", "acgtnACGTNryk", string.ascii_letters]), n)
    name = r.choice(["puc19", "seq1", "x", "my_plasmid_v2", "ab000100", "linear", "circular", "dna", "locus", "pri_bct", "bp"]) \
        if r.random() < 0.5 else r.choice(string.ascii_lowercase) + randword(r, string.ascii_lowercase + string.digits + "_", r.randint(0, 15))
    if r.random() < 0.1:     # beyond the property's lower-case names (the theorem covers every blank-free name)
        name = r.choice(["AB000100", "DNA", "mRNA_1", "pUC19", "PRI", "12", "20-JAN-2020", "LOCUS", "a.b-c/d", "BCT9"])
    mol, topo, div = MOL4[r.randint(0, 3)], r.randint(0, 1), DIVS[r.randint(0, 17)]
    if name in ("linear", "circular") and r.random() < 0.8:
        topo = 1 if name == "linear" else 0       # mostly the harmless combination
    date = "%02d-%s-%04d" % (r.randint(1, 31), r.choice(MONTHS), r.randint(1980, 2026))
    length = str(n)
    if r.random() < 0.2:
        # beyond the four molecule types of the property: any of the twelve, fields absent, a stated length that is
        # not the number of bases (records assembled by a program)
        mol = r.choice(MOL12 + [""])
        if r.random() < 0.4: topo = 2
        if r.random() < 0.4: div = ""
        if r.random() < 0.4: date = ""
        if r.random() < 0.5: length = r.choice(["", "0", "7", "12", "007", str(n + 1), "123456789012"])
    pads = r.choice([[6, 15, 3, 4, 1, 0], [0, 0, 0, 0, 0, 0], [r.randint(0, 11) for _ in range(6)], [], [r.randint(0, 40) for _ in range(6)]])
    f = [name, length, mol, str(topo), div, date, nats(pads), str(r.choice([0, 0, 0, 5, 1])), str(r.randint(0, 1))]
    bl, pl = r.choice([(9, 5), (9, 5), (9, 5), (r.randint(0, 14), r.randint(0, 7))])
    f += [str(bl), str(pl)]
    nex = r.choice([0, 0, 1, 1, 2, 3, 4])
    # where the extra keyword blocks stand: all after the references, DBLINK-like before KEYWORDS, or anywhere
    cm = r.random()
    if cm < 0.4 or nex == 0:
        cuts = []
    elif cm < 0.55:
        cuts = [0, 0, 0, r.randint(1, nex)]
    elif cm < 0.7:
        cuts = [0, 0, 0, 0, 0, 0, r.randint(1, nex)]          # the last ones after the feature table (CONTIG)
    else:
        cuts = [r.choice([0, 0, 1, 2]) for _ in range(7)]
    # five standard blocks left out when empty; sixth flag: the empty ORGANISM line alone left out under a written SOURCE
    # (defect C01-source-without-organism, repaired by 6ccbb58)
    omit = "".join(r.choice("01") for _ in range(5)) + ("1" if r.random() < 0.3 else "0")
    f += [nats(cuts), omit]
    empties = r.random() < 0.25
    for kw, mx in (("DEFINITION", 40), ("ACCESSION", 2), ("VERSION", 2), ("KEYWORDS", 8), ("SOURCE", 12), ("ORGANISM", 25)):
        t = "" if r.random() < (0.5 if empties else 0.08) else ("." if r.random() < 0.1 else text(r, r.randint(1, mx), trap))
        f += [t, nats(breaks(r, t, 12))]
    nrefs = 0 if small and r.random() < 0.5 else r.choice([0, 1, 1, 2, 2, 3, 4, 5])
    f.append(str(nrefs))
    own = r.random() < 0.4                                        # references that state their own number
    prev = ""
    for j in range(nrefs):
        rng_ = r.choice(["", "(bases 1 to %d)" % n, "(sites)", "(bases 1 to %d; 3 to 4)" % n])
        num = ""
        if own and r.random() < 0.8:                              # not 1..n: gaps, repeats, 0, descending, not a number at all
            num = r.choice([str(j + 1), str(j + 2), str(r.randint(0, 130)), str(r.randint(0, 9)), "0", "1", prev or "7", str(nrefs - j),
                            "007", "12345678901234567890", "[%d]" % (j + 1), "%d." % (j + 1), "2a", "x", "-1", "REFERENCE", "//", '"', "/", "="])
        prev = num or str(j + 1)
        head = (num or str(j + 1)) + ("  " + rng_ if rng_ else "")  # the text that is wrapped: number, two blanks, range
        f += [num, rng_, nats(breaks(r, head, 12)), str(r.randint(0, 1))]
        for kw, mx in (("AUTHORS", 30), ("TITLE", 30), ("JOURNAL", 20), ("PUBMED", 1), ("REMARK", 15)):
            t = "" if r.random() < 0.3 else text(r, r.randint(1, mx), trap)
            f += [t, nats(breaks(r, t, 12))]
    keys = r.sample(EXTRA, nex)
    f.append(str(nex))
    for k in keys:
        t = "" if r.random() < 0.05 else text(r, r.randint(1, 80), trap)
        f += [k, t, nats(breaks(r, t, 12))]
    nfeat = r.choice([0, 1, 2, 3, 5, 8, 12, 20, 40]) if not small else r.randint(0, 4)
    quoty = r.random() < 0.06                                     # a record whose qualifier values may hold quotation marks inside
    f.append(str(nfeat))
    for _ in range(nfeat):
        key = r.choice(FKEYS)
        loc = location(r, n)
        lb = loc_breaks(r, loc)
        nq = r.choice([0, 0, 1, 2, 3, 4, 8])
        qkeys = r.sample(QKEYS, nq)
        if nq and r.random() < 0.3:
            qkeys[r.randrange(nq)] = "translation"
        if repeat and nq >= 2 and r.random() < 0.7:
            i, j = r.sample(range(nq), 2)
            qkeys[i] = qkeys[j]                                   # a repeated key (known finding)
        f += [key, loc, nats(lb), str(nq)]
        for qk in qkeys:
            st = r.choice([0, 0, 0, 1, 1, 2])
            if qk == "translation":
                v = randword(r, AMINO, loglen(r, 1, 700))
                f += [qk, v, nats(cuts_(r, v, 58 - 14)), str(st)]
            else:
                v = qual_value(r, trap, quoty)
                if st == 1 and r.random() < 0.7:
                    v = r.choice(["1", "11", "7", "taxon:562", "a=b", "/x", "x/y", "=", "join(1..2)", "ABC"])
                if st == 2 and r.random() < 0.8:
                    v = ""
                f += [qk, v, nats(breaks(r, v, 21 + len(qk) + 3)), str(st)]
    f.append(seq)
    return f


def with_features(rec, feats):
    """replace the feature table of a record (field list) by the given features (each a field list)"""
    # fields: 11 header fields, 12 meta fields, refs, extras, features, seq
    i = 13 + 12
    nrefs = int(rec[i]); i += 1 + 14 * nrefs
    nex = int(rec[i]); i += 1 + 3 * nex
    out = rec[:i] + [str(len(feats))]
    for ft in feats:
        out += ft
    return out + [rec[-1]]


def mk(mode, final_newline, header, recs):
    out = ["c01", mode, "1" if final_newline else "0", "1" if header else "0", str(len(recs))]
    for rec in recs:
        out += rec
    return out


def cases(seed, tier):
    r = rng(seed, "C01")
    # SOURCE written without its ORGANISM line (organism empty), followed by each kind of block: an extra block before the
    # references, a REFERENCE, an extra block after the references, FEATURES (regression: C01-source-without-organism, 6ccbb58)
    for k in range(16 if tier == "quick" else 200):
        recs = []
        for _ in range(1 if k % 4 else 2):
            rec = record(r, tier, small=True, trap=0.0)
            rec[23], rec[24] = "", ""                              # organism
            if k % 3 == 0: rec[21], rec[22] = "", ""               # source empty too: the bare keyword SOURCE is written
            rec[12] = rec[12][:4] + "01"                           # SOURCE not left out, ORGANISM left out
            recs.append(rec)
        yield mk("parse" if len(recs) == 1 else "multi", k % 2 == 0, False, recs)
    # numerals >= 2^63 in a location text: outside the domain (strconv.Atoi clamps to MaxInt64, C02's model keeps the number), drift
    # probes; only here and through Read (C03 builds its `img01` cases from the single-record `parse` cases of this generator and
    # compares the parsed structure)
    for loc in ("1..9223372036854775808", "99999999999999999999", "join(1..2,9223372036854775807..9223372036854775808)"):
        rec = record(r, tier, small=True, trap=0.0)
        yield mk("read", True, False, [with_features(rec, [["gene", loc, "", "0"]])])
    # qualifier values that begin or end with a quotation mark (f2612ce: only the enclosing pair is stripped): outside the domain
    # of this check (wfQual), model and code must agree; C03 judges them through Build
    for v in ('he said "hi"', '"hi" he said', '"', 'a"', '"a', 'x "y" z', '""', '"a"', 'a""'):
        rec = record(r, tier, small=True, trap=0.0)
        yield mk("read", True, False, [with_features(rec, [["gene", "1", "", "2", "note", v, "", "0", "label", "plain", "", "0"]])])
    # every molecule type x topology x division, short sequences of every small length
    k = 0
    for mol in range(4):
        for topo in range(2):
            for div in range(18):
                k += 1
                rec = record(r, tier, small=True, trap=0.0)
                rec[2], rec[3], rec[4] = MOL4[mol], str(topo), DIVS[div]
                if rec[0] in ("linear", "circular"):
                    rec[0] = "name%d" % k
                rec[-1] = randword(r, "acgt", k)
                rec[1] = str(k)
                yield mk("parse", k % 2 == 0, False, [rec])
    # each of the twelve molecule types or none x topology or none, with and without division / date / length
    for mol in MOL12 + [""]:
        for topo in (0, 1, 2):
            rec = record(r, tier, small=True, trap=0.0)
            rec[2], rec[3] = mol, str(topo)
            if r.random() < 0.5: rec[4] = ""
            if r.random() < 0.5: rec[5] = ""
            if r.random() < 0.5: rec[1] = ""
            yield mk("parse", True, False, [rec])
    n = 900 if tier == "quick" else 12000
    for i in range(n):
        m = r.random()
        if m < 0.45:
            mode, nrec = r.choice(["parse", "parse", "read"]), 1
        elif m < 0.75:
            mode, nrec = r.choice(["multi", "multi", "readmulti"]), r.randint(1, 5)
        else:
            mode, nrec = r.choice(["flat", "flat", "readflat", "readflatgz"]), r.randint(1, 5)
        recs = [record(r, tier, small=(nrec > 2)) for _ in range(nrec)]
        yield mk(mode, r.random() < 0.5, mode.startswith("flat") or mode.startswith("readflat"), recs)
    # feature-table lines of exactly 22 characters: a one-digit single-base location, one-character continuation lines
    for i in range(4):
        base = record(r, tier, small=True, trap=0.0)
        yield mk("parse", i % 2 == 0, False, [with_features(base, [
            ["variation", str(r.randint(1, 9)), "", "0"],
            ["gene", "join(1..2,3)", "9", "1", "note", "a b c", "1,3", "0"],
            ["CDS", "7", "", "2", "translation", "MK", "1", "0", "codon_start", "1", "", "1"]])])
    # files of exactly five (and four, six) records: the order of the results is the order of the file
    for k, mode, fnl in ((5, "multi", True), (5, "multi", False), (5, "flat", True), (5, "readmulti", True), (4, "multi", True), (6, "flat", False)):
        yield mk(mode, fnl, mode.startswith("flat"), [record(r, tier, small=True) for _ in range(k)])
    # repeated qualifier keys (known finding C01-repeated-qualifier-key)
    for i in range(16 if tier == "quick" else 240):
        mode = ["parse", "read", "multi", "flat", "readmulti", "readflatgz"][i % 6]
        nrec = 1 if mode in ("parse", "read") else r.randint(1, 3)
        recs = [record(r, tier, small=True, trap=0.0, repeat=(k == 0)) for k in range(nrec)]
        r.shuffle(recs)
        yield mk(mode, i % 2 == 0, mode.startswith("flat") or mode.startswith("readflat"), recs)
    # two-digit (and one-digit) lengths after gaps of two and more blanks
    for n in (7, 10, 20, 99):
        for g in (1, 2, 17):
            rec = record(r, tier, small=True, trap=0.0)
            rec[6] = "6,%d,3,4,2,0" % g
            rec[-1] = randword(r, "acgt", n)
            rec[1] = str(n)
            yield mk("parse", True, False, [rec])
    # files with one record of more than 64 KiB (first / in the middle), through ParseMulti and ParseFlat
    for mode, fnl, pos in (("multi", True, 0), ("multi", False, 1), ("flat", True, 1), ("flat", False, 0), ("readmulti", True, 1)):
        recs = [record(r, tier, small=True) for _ in range(3)]
        big = record(r, tier, small=True)
        big[-1] = randword(r, "acgt", r.randint(60000, 70000))
        big[1] = str(len(big[-1]))
        recs[pos] = big
        yield mk(mode, fnl, mode.startswith("flat"), recs)
    # every exported reader (Read, ReadMulti, ReadFlat, ReadFlatGz) and parser on files above 32 KiB, 64 KiB and ~1 MiB
    # (decompressed), several records where the entry point takes them
    for total in (30000, 60000, 850000):
        for mode in ("read", "readmulti", "readflat", "readflatgz", "multi", "flat"):
            if total > 100000 and mode in ("multi", "flat") and tier == "quick":
                continue
            nrec = 1 if mode == "read" else 3
            recs = []
            for k in range(nrec):
                rec = record(r, tier, small=True)
                n = total // nrec + r.randint(0, 50)
                rec[-1] = "".join(r.choices("acgt", k=n)); rec[1] = str(n)
                recs.append(rec)
            yield mk(mode, r.random() < 0.5, mode.startswith("flat") or mode.startswith("readflat"), recs)
    # large sequences
    for i in range(3 if tier == "quick" else 40):
        yield mk(r.choice(["parse", "multi", "flat"]) if i else "parse", r.random() < 0.5, False, [record(r, tier, big=True)])
    if tier == "thorough":
        rec = record(r, tier, big=True)
        rec[-1] = randword(r, "acgt", 100000); rec[1] = "100000"
        yield mk("parse", True, False, [rec])
    # trap words made frequent (known-finding classes are exercised on purpose)
    for i in range(40 if tier == "quick" else 600):
        yield mk("parse", True, False, [record(r, tier, small=True, trap=0.08)])
    for c in raw_cases(r, 300 if tier == "quick" else 5000):
        yield c
    # out-of-domain probes (not judged): header given to Parse, records without header given to ParseFlat
    for i in range(6):
        recs = [record(r, tier, small=True) for _ in range(2)]
        yield mk("parse", True, True, recs[:1])
        yield mk("flat", True, False, recs)
        yield mk("parse", False, False, recs)


def raw_cases(r, n):
    """raw texts outside the domain (not judged): the model must still agree, panics included"""
    mols = ["DNA", "mRNA", "genomic DNA", "other RNA", "ss-DNA", "viral cRNA", "rna", ""]
    for _ in range(n):
        k = r.random()
        if k < 0.45:
            # a LOCUS line with odd fields and spacing, alone or followed by a short record
            toks = ["LOCUS", r.choice(["x", "DNA", "12", "linear", "a b", "AB000100", ""]),
                    r.choice(["5", "20", "123456", "", "12 34", "9x"]), r.choice(["bp", "aa", "b", ""]),
                    r.choice(mols), r.choice(["circular", "linear", "", "circular linear"]),
                    r.choice(["BCT", "PRI", "ENV", "XXX", "", "PRIBCT"]),
                    r.choice(["01-JAN-2020", "1-JAN-2020", "01-jan-2020", "", "31-DEC-19999", "x01-FEB-2001"])]
            line = ""
            for t in toks:
                line += t + " " * r.choice([0, 1, 1, 2, 7])
            text = line + r.choice(["", "\n", "\nORIGIN\n        1 acgt\n//\n"])
        elif k < 0.75:
            lines = []
            for _ in range(r.randint(1, 12)):
                lines.append(r.choice(["", " ", "  x", "      y", "DEFINITION  a", "            b", "SOURCE      s", "  ORGANISM  o",
                                       "REFERENCE   1  (bases 1 to 2)", "  AUTHORS   A", "  TITLE", "COMMENT     c", "FEATURES             Location/Qualifiers",
                                       "     gene            1..2", "     gene", "                     /note=\"a", "                     b\"",
                                       "                     /pseudo", "                     3..4)", "ORIGIN", "        1 acgt", "//", "/", "x", "LOCUS a",
                                       "KEYWORDS    .", "ACCESSION", "VERSION     v", "                     /k=\"x\"y\"", "     CDS             join(1..2,"]))
            text = "\n".join(lines) + r.choice(["", "\n"])
        else:
            text = randword(r, " \n/=\"aA1LOCUS", r.randint(0, 60))
        yield ["c01", "raw", r.choice(["parse", "parse", "multi", "flat"]), text]


PARTIAL = ["features_recovered / parse_layout: proved for features whose qualifier keys are pairwise distinct; a feature with a repeated key "
           "(several /db_xref) keeps only the last value because poly.Feature.Attributes is a map[string]string — known finding "
           "C01-repeated-qualifier-key (witness theorem repeated_qualifier_key_witness); everything else of the statement is at full strength. "
           "Judge on that class: tagged only when everything else is as stated AND each repeated key is returned once with ONE OF its stated "
           "values (the loss the finding names); a missing key, a text the record does not state, or a difference anywhere else is a plain "
           "FAIL; a reply that repeats the key with the stated values or returns them joined in order by a separator passes (/kf-repaired)"]
TECHNIQUE = ("Lean 4 proof over an executable model of genbank.Parse / ParseMulti / ParseFlat against an independent flat-file "
             "writer (round trip parse (layout r l) = r for every record and every layout choice); differential correspondence "
             "on generated (record, layout) pairs")
LEVEL_TEXT = ("(Layout family widened after review: empty standard blocks written or left out, extra keyword blocks in 7 slots, "
              "qualifier values quoted / unquoted / absent, keys with capitals, every INSDC-shaped location text; repeated qualifier "
              "keys are judged and are a known finding, with the positive theorems features_recovered_last_wins / "
              "parse_layout_last_wins saying exactly what is kept.) "
              "Every clause is a kernel-checked theorem about the model for ALL abstract records in the domain predicate wf and ALL "
              "layout choices (no bound on sequence length below 10^8, number of features, qualifiers, references, records, line "
              "widths): origin_recovered, locus_recovered (every name, a stated length of any number of digits or none, each of the 12 "
              "molecule types or none, topology / division / date or none, all gaps), sublines_rejoined/block_rejoined, source_organism_recovered, reference_recovered (the reference's own number, any blank-free token — gaps, repeats, 0 — or "
              "its position when it states none), "
              "features_recovered (multi-line locations with and without qualifiers, values with '/', '=', wrapped before '/', "
              "/translation cut mid-token), parse_layout (composition on the text, with and without final newline), "
              "parseMulti_layout + parseMulti_eq_parse_each (k records -> k results, each = parsing the record alone), "
              "parseFlat_layout (any 10-line header), parse_layout_locations_total / parseMulti_layout_locations_total / "
              "parseFlat_layout_locations_total (no location of an in-domain record makes parseLocation panic, from C02's "
              "parseLocation_total), parseMulti_layout_last_wins / parseFlat_layout_last_wins (the file theorems over wfLoose). "
              "The layouts include a SOURCE block written without its (empty) ORGANISM line. The model is tied to /repo by correspondence on the same (record, layout) "
              "pairs: Parse, ParseMulti, ParseFlat and Read, ReadMulti, ReadFlat, ReadFlatGz, all fields the property lists.")
LEVEL_NOTE = ("Trusted: Lean kernel; Spec/GbLayout.lean (the writer and wf, typed from the NCBI flat-file description); the scanners that "
              "stand for the four regular expressions; ASCII; C02's model of parseLocation (proved not to panic on domain location texts: "
              "Props.C02.parseLocation_total / Props.C01.parse_layout_locations_total); "
              "file I/O and gzip of the Read* wrappers. Seven defects found by this check or its review were repaired in /repo (5a12a0c, c94d396, "
              "49c2e81, d6becc3, 1a072ef, 1650bb9, 6ccbb58); their exemplars stay in gen/corpus/C01 as regression cases.")

# the same requests executed 8 at a time in concurrent goroutines (check: PARALLEL / harness: VERIF_PAR)
PARALLEL = {"quick": {"par": 8, "max_cases": 4000}, "thorough": {"par": 8, "max_cases": 40000, "race": True}}
