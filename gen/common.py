"""Shared helpers for the case generators.  Every random choice derives from one
random.Random(seed) so a run replays exactly from VERIF_SEED."""
import random, itertools

IUPAC15 = "ACGTRYSWKMBDHVN"
ACGT = "ACGT"

def rng(seed, salt=""):
    return random.Random("%s/%s" % (seed, salt))

def words(alphabet, maxlen, minlen=0):
    """all words over alphabet with minlen <= length <= maxlen"""
    for n in range(minlen, maxlen + 1):
        for t in itertools.product(alphabet, repeat=n):
            yield "".join(t)

def randword(r, alphabet, n):
    return "".join(r.choice(alphabet) for _ in range(n))

def randcase(r, s):
    return "".join(c.lower() if r.random() < 0.5 else c.upper() for c in s)

def loglen(r, lo, hi):
    """length with a log-uniform distribution on [lo, hi]"""
    import math
    if lo < 1:
        if r.random() < 0.05:
            return lo
        lo = 1
    return int(round(math.exp(r.uniform(math.log(lo), math.log(hi)))))
