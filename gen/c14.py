"""C14 — GFF write-then-read preserves records and coordinates."""
from common import *

RULE = ("build cases: an annotated sequence handed to the real gff.Build, then gff.Parse of the result, Feature.GetSequence of every "
        "parsed feature and gff.Write/gff.Read through a file: every length 1..LMAX (all 70 residue classes, several times) x "
        "RegionEnd in {len, 0, 70, len-1, a smaller multiple of 70}, then random records (length log-uniform to 5000, 0..30 features, "
        "1..6 attributes, features at the extreme coordinates, empty and defaulted fields, punctuation in field text); "
        "layout cases: the same content written by the independent Lean writer (arbitrary line widths incl. blank lines, ## directives, "
        "# comment lines, blank lines between features, ### or not, final newline or not) and parsed by the real gff.Parse / gff.Read. "
        "non-trivial = at least one feature or sequence length >= 70; distinct by case text")
EXHAUSTIVE = {"quick": False, "thorough": False}
TRUSTED_BASE = ["Spec/GffLayout.lean: the independent GFF3 writer, `denote` and `bases` (1-based inclusive enumeration) typed by hand",
                "Model/LineText.lean: strings.Split/HasPrefix/TrimLeft, strconv.Itoa/Atoi, sort.Strings modelled on ASCII",
                "ioutil.ReadFile/WriteFile (gff.Read/Write) — exercised by the correspondence check only"]
ASSUMPTIONS = ["inputs are ASCII (one byte = one rune)", "coordinates lie in the int64 range and Start+1 does not overflow"]
PARTIAL = []

TEXT = "abcdefghijklmnopqrstuvwxyzABCDEFGHIJKLMNOPQRSTUVWXYZ0123456789 .,:()[]_-+*/%#>|'\"~!?"
IDCH = "abcdefghijklmnopqrstuvwxyzABCDEFGHIJKLMNOPQRSTUVWXYZ0123456789.:^*$@!+_?-|"
SEQA = ["ACGT", "ACGTN", "acgtACGTRYKMSWBDHVN", "ACDEFGHIKLMNPQRSTVWY*", "ACGT-"]


def text(r, lo=0, hi=12, alphabet=TEXT):
    return randword(r, alphabet, r.randint(lo, hi))


def ident(r, lo=1, hi=10):
    return randword(r, IDCH, r.randint(lo, hi))


def attrs(r, n=None):
    n = r.randint(1, 6) if n is None else n
    keys = []
    while len(keys) < n:
        k = r.choice(["ID", "Name", "Parent", "Note", "Dbxref", "gene", "product", "locus_tag"]) if r.random() < 0.5 else text(r, 0, 8)
        if k not in keys:
            keys.append(k)
    out = [str(n)]
    for k in keys:
        out += [k, text(r, 0, 20)]
    return out


def coords(r, n):
    """0-based half-open [start, end) inside a sequence of length n, extreme positions favoured"""
    t = r.random()
    if t < 0.1:
        return 0, n
    if t < 0.2:
        return 0, min(n, 1)
    if t < 0.3:
        return max(0, n - 1), n
    if t < 0.35:
        a = r.randint(0, n)
        return a, a
    a = r.randint(0, n)
    b = r.randint(a, n)
    return a, b


def feature(r, n, seqid=None, empties=True):
    a, b = coords(r, n)
    def opt(v):
        return "" if empties and r.random() < 0.1 else v
    return [opt(seqid if seqid is not None and r.random() < 0.8 else ident(r)), opt(r.choice(["poly", "GenBank", "."]) if r.random() < 0.6 else text(r, 1, 8)),
            opt(r.choice(["gene", "CDS", "region", "mRNA", "exon"]) if r.random() < 0.6 else text(r, 1, 8)),
            str(a), str(b), r.choice([".", "", "0.5", "1e-10", text(r, 0, 5)]), r.choice(["+", "-", ".", "?", ""]),
            r.choice([".", "0", "1", "2", ""])] + attrs(r)


def build_case(r, n, re_mode="len", nfeat=None, alphabet=None, name=None, empties=True):
    seq = randword(r, alphabet or r.choice(SEQA), n)
    name = ident(r) if name is None else name
    rend = {"len": n, "zero": 0, "70": 70, "len-1": n - 1, "len+1": n + 1, "mult": 70 * r.randint(0, max(1, n // 70))}[re_mode]
    rstart = r.choice([1, 1, 1, 0, r.randint(2, 50)])
    locus = r.choice(["", "", ident(r)])
    acc = r.choice(["", ident(r)])
    lsl = r.choice(["", "%d bp" % n, str(n), "bp"])
    ver = r.choice(["3", "3", "3.1.26", "", "3.2.1"])
    nfeat = r.randint(0, 30) if nfeat is None else nfeat
    c = ["build", name, ver, str(rstart), str(rend), locus, acc, lsl, seq, str(nfeat)]
    for _ in range(nfeat):
        c += feature(r, n, seqid=name or None, empties=empties)
    return c


def widths_text(r, n):
    t = r.random()
    if t < 0.3:
        w = r.choice([1, 2, 10, 60, 69, 70, 71, 80, 100, 200])
        return "%d*%d" % (w, n // w + r.randint(0, 2))
    if t < 0.4:
        return ""
    items, left = [], n
    while left > 0 and len(items) < 400:
        w = r.choice([0, 0, r.randint(1, 120)])
        items.append(str(w))
        left -= w
    return ",".join(items)


def layout_case(r, n, nfeat=None, comments=None):
    if comments is None:
        comments = r.choice([0, 0, 1, 2])
    seq = randword(r, r.choice(SEQA), n)
    region = ident(r)
    nfeat = r.randint(0, 30) if nfeat is None else nfeat
    c = ["layout", r.choice(["3", "3.1.26", "3.2.1", "2"]), region, str(r.choice([1, 1, r.randint(0, 99)])), str(r.choice([n, n, r.randint(0, n + 70)])),
         r.choice([region, region + " " + text(r, 0, 20), ""]), seq, str(nfeat)]
    for _ in range(nfeat):
        f = feature(r, n, seqid=region, empties=False)
        # file coordinates are 1-based inclusive: [a, b) -> a+1 .. b
        f[3] = str(int(f[3]) + 1)
        c += f
    ndir = r.choice([0, 0, 1, 3])
    c.append(str(ndir))
    for _ in range(ndir):
        c.append("##" + r.choice(["species https://x/y?id=9", "feature-ontology so.obo", "genome-build NCBI B36", "#", "", "FASTA ", "note " + text(r, 0, 10)]))
    c.append(str(comments))
    for _ in range(comments):
        c.append("#" + r.choice(["", " comment", "!processor poly", " a\tb"]))
    c.append(",".join(str(r.choice([0, 0, 0, 1, 2])) for _ in range(nfeat)))
    c.append(r.choice(["true", "true", "false"]))
    c.append(widths_text(r, n))
    c.append(r.choice(["true", "true", "false"]))
    return c


def cases(seed, tier):
    r = rng(seed, "C14")
    lmax = 150 if tier == "quick" else 430
    # every length (all residue classes mod 70) x RegionEnd variants, small feature sets
    for n in range(1, lmax + 1):
        modes = ["len", "zero"] if tier == "quick" and n % 70 not in (0, 1, 69) else ["len", "zero", "70", "len-1", "mult", "len+1"]
        for m in modes:
            yield build_case(r, n, m, nfeat=r.randint(0, 2), alphabet="ACGT")
    for n in [70 * k + d for k in (10, 33, 71) for d in (-1, 0, 1)] + [5000]:
        for m in ["len", "zero", "mult"]:
            yield build_case(r, n, m, nfeat=r.randint(0, 3))
    nrand = 1200 if tier == "quick" else 6000
    for _ in range(nrand):
        n = loglen(r, 1, 5000)
        yield build_case(r, n, r.choice(["len", "len", "len", "zero", "mult", "len+1", "70"]))
    # empty region name (Build's fallbacks; the name clause is vacuous, the rest is judged)
    for _ in range(20):
        yield build_case(r, r.randint(1, 300), "len", name="")
    nlay = 800 if tier == "quick" else 4000
    for n in range(1, 142 if tier == "quick" else 282):
        yield layout_case(r, n, nfeat=r.randint(0, 2))
    for _ in range(nlay):
        yield layout_case(r, loglen(r, 1, 5000))
    # out-of-domain probes (not judged; model drift is reported only as information)
    base = ["build", "chr1", "3", "1", "10", "", "", "", "ACGTACGTAC"]
    yield base + ["1", "chr1", "poly", "gene", "0", "4", ".", "+", ".", "0"]                       # no attributes
    yield base + ["1", "chr1", "poly", "gene", "0", "4", ".", "+", ".", "1", "ID", "a=b"]          # '=' in a value
    yield base + ["1", "chr1", "poly", "gene", "0", "4", ".", "+", ".", "1", "ID", "a;b"]          # ';' in a value
    yield base + ["1", "##x", "poly", "gene", "0", "4", ".", "+", ".", "1", "ID", "a"]             # seqid looks like a directive
    yield base + ["1", "#x", "poly", "gene", "0", "4", ".", "+", ".", "1", "ID", "a"]              # seqid looks like a comment
    yield base + ["1", "chr1", "po\tly", "gene", "0", "4", ".", "+", ".", "1", "ID", "a"]          # tab in a column
    yield ["build", "chr 1", "3", "1", "10", "", "", "", "ACGTACGTAC", "0"]                        # blank in the region name
    yield ["build", "chr1", "3", "1", "10", "", "", "", ">CGT#CGTAC", "0"]                         # '>' in the sequence
    yield ["build", "chr1", "3 x", "1", "10", "", "", "", "ACGT", "0"]                             # blank in the version
    yield base + ["1", "chr1", "poly", "gene", "7", "3", ".", "+", ".", "1", "ID", "a"]            # start > end (GetSequence panics)
    yield base + ["1", "chr1", "poly", "gene", "-3", "30", ".", "+", ".", "1", "ID", "a"]          # outside the sequence


TECHNIQUE = ("Lean 4 proof over an executable model of gff.Parse / gff.Build (statement by statement, panics explicit) against an "
             "independent GFF3 writer and a positional reading of 1-based inclusive coordinates; differential correspondence of "
             "the model with the real Build, Parse, Read, Write and GetSequence")
LEVEL_TEXT = ("parse_build: for every record satisfying the decidable predicate wfBuild (any sequence length, any number of features "
              "and attributes, any map iteration order) Parse(Build x) returns exactly `expected x`: every set field unchanged, unset "
              "fields as the defaults Build wrote; parse_build_preserves restates it clause by clause (region name and bounds, sequence, "
              "seqid, source, type, score, strand, phase, coordinates, attributes as a permutation). The FASTA part is proved through a "
              "newline-insensitivity lemma, so all residues modulo 70 and the RegionEnd exception are covered uniformly; "
              "parse_buildWith states it for ANY line-break rule in Build's FASTA loop, and accordingly the correspondence compares "
              "Build's text exactly through the definition line and up to newline positions inside the sequence. coords_build / "
              "coords_layout: GetSequence of a parsed feature is `bases seq first last` (1-based inclusive enumeration). "
              "parse_layout: the parse of any text produced by the independent writer (arbitrary widths, ## directives, # comment "
              "lines, blank lines, with or without ### and the final newline) is what the document denotes.")
LEVEL_NOTE = ("Trusted: Lean kernel; the hand-written model's faithfulness is sampled by the correspondence check (Build text compared "
              "byte for byte, Parse results field by field, GetSequence, file round trip); Go runtime behaviour on non-ASCII input is "
              "outside the model.")
HARNESS_BIN = "run-io"
EXTRACT_BINS = []
