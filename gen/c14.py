"""C14 — GFF write-then-read preserves records and coordinates."""
from common import *

RULE = ("build cases: an annotated sequence handed to the real gff.Build, then gff.Parse of the result, Feature.GetSequence of every "
        "parsed feature and gff.Write/gff.Read through a file: every length 1..LMAX (all 70 residue classes, several times) x "
        "RegionEnd in {len, 0, 70, len-1, a smaller multiple of 70}, then random records (length log-uniform to 5000, 0..30 features, "
        "1..6 attributes, features at the extreme coordinates, empty and defaulted fields, punctuation in field text); "
        "duplicate IDs and identical feature lines, region bounds up to 2^62, coordinates outside the sequence, free-text score/strand/phase, "
        "non-ASCII field text, one 70 001-letter record; buildx cases (the length sweep) compare Build's text byte for byte, build cases up to "
        "newline positions inside the sequence; the harness holds Build's output across a Build of another record before using it; "
        "layout cases: the same content written by the independent Lean writer (arbitrary line widths incl. blank lines; blank, # comment, "
        "## directive and ### lines before any feature, after the features and inside the FASTA section; final newline or not; one "
        "single-line FASTA longer than 64 KiB; trailing ';' in column 9, CR LF line ends, directives before ##sequence-region) "
        "parsed by the real gff.Parse / gff.Read. "
        "non-trivial = at least one feature or sequence length >= 70; distinct by case text")
EXHAUSTIVE = {"quick": False, "thorough": False}
TRUSTED_BASE = ["Spec/GffLayout.lean: the independent GFF3 writer, `denote` and `bases` (1-based inclusive enumeration) typed by hand",
                "Model/LineText.lean: strings.Split/HasPrefix/TrimLeft, strconv.Itoa/Atoi, sort.Strings modelled on ASCII",
                "ioutil.ReadFile/WriteFile (gff.Read/Write) — exercised by the correspondence check only"]
ASSUMPTIONS = [
    "sequence letters are ASCII (Go slices bytes, model and spec index characters); field text may be any valid UTF-8",
    "coordinates and region bounds lie in the int64 range and Start+1 does not overflow",
    "for text laid out by the independent WRITER a line beginning with '#' is a comment by GFF3's own rule, so a feature line of a "
    "document does not begin with '#' (wfFeatLine); for records given to Build see the known finding in PARTIAL",
    "the coordinate clause speaks of 'bases start..end of the file's sequence': GetSequence of a feature whose span [start, end) does not lie "
    "inside the sequence (0 <= start <= end <= len) is outside the quantifier — per FEATURE its GetSequence reply (today a slice panic) is "
    "neither judged nor compared with the model (class …/getseq-outside-drift when it differs); its coordinates and columns, and every "
    "other feature of the same record, stay judged and compared",
    "on a record of the known-finding class (a '#'-leading seqid) on which the property HOLDS of the reply (the finding repaired, e.g. "
    "by escaping), a difference from the model — which mirrors the loss, also in Build's text — is drift (class …/kf-repaired), not a DIFF",
    "a case outside the quantifier is not judged, EXCEPT that a timeout / crash / panic where the model predicts a normal return is a FAIL",
    "NARROWING: Meta.GffVersion free of blank and newline is a hypothesis of parse_build only; the judge still judges records whose "
    "version holds a blank (the version is not a judged field)",
    "NARROWING: the region name (Meta.Name, or the fallback Build writes for an empty name) is free of blanks — it is a seqid",
    "NARROWING of 'free of tab, newline': newline is read as LF or CR. Since fix 4e5b18b gff.Parse drops a CR at the end of every line, so "
    "text ending in CR would not come back; theorems and judge require columns, attribute text, version, names, skip lines and "
    "sequence letters to be CR-free",
    "features WITHOUT attributes (outside the quantifier's 1..6) are in the theorems' and the judge's domain since fix 244ec83: the "
    "empty ninth column reads back as an empty map",
    "a directive placed before ##sequence-region by the independent writer does not itself begin with '##sequence-region'",
]
PARTIAL = [
    "KNOWN FINDING C14-hash-seqid (recorded, not repaired): the quantifier says 'seqids free of white space'; a seqid that begins with '#' (or, for an "
    "empty seqid, a Locus.Name that does) is inside it, but gff.Build writes it unescaped and gff.Parse skips the line as a comment "
    "(since fdf6b17 for '#…', before only for '##…'): 1 feature in, 0 out. parse_build / coords_build are proved under wfBuild, which "
    "excludes exactly this class; over wfBuildQ (the quantifier as worded) parse_build_hash proves the EXACT result — "
    "Parse(Build x) = expected (x without its '#'-seqid features) — and hash_seqid_witness is the kernel-checked counterexample; such "
    "cases are judged, and tagged kf only when the property holds of the record without those features",
    "'preserves region name and bounds, seqid, source, type' is proved and judged for values that are SET; an empty Meta.Name / "
    "RegionStart 0 / RegionEnd 0 / empty seqid, source, type come back as the defaults gff.Build wrote (Locus.Name or Accession or "
    "'unknown'; 1; digits of Locus.SequenceLength or 1; Locus.Name; 'feature'; 'unknown') — parse_build states the exact result "
    "(expected x), parse_build_preserves the clause under allSet",
    "a ninth column written as '.' (the GFF3 way to say 'no attributes') is outside the quantifier (1..6 attributes), not written by "
    "the independent writer and not covered: gff.Parse panics on it",
]

TEXT = "abcdefghijklmnopqrstuvwxyzABCDEFGHIJKLMNOPQRSTUVWXYZ0123456789 .,:()[]_-+*/%#>|'\"~!?"
IDCH = "abcdefghijklmnopqrstuvwxyzABCDEFGHIJKLMNOPQRSTUVWXYZ0123456789.:^*$@!+_?-|"
SEQA = ["ACGT", "ACGTN", "acgtACGTRYKMSWBDHVN", "ACDEFGHIKLMNPQRSTVWY*", "ACGT-"]


NONASCII = "\u00e9\u00fc\u03b2\u03bb\u4e2d\u2013\U0001F9EC"


def text(r, lo=0, hi=12, alphabet=TEXT):
    if r.random() < 0.08:
        alphabet = alphabet + NONASCII * 3
    return randword(r, alphabet, r.randint(lo, hi))


def ident(r, lo=1, hi=10):
    s = randword(r, IDCH, r.randint(lo, hi))
    if r.random() < 0.04:          # white-space free, but with a character that means something elsewhere in the file
        # incl. the sentinels a percent-escaping repair of C14-hash-seqid would write: they are ordinary seqids and must come back verbatim
        s = r.choice([">", ">", "%", ",", "=", ";", ".", "%23", "%23", "%25", "%3E", "%2523", "%"]) + s
    elif r.random() < 0.02:
        cut = r.randint(0, len(s))
        s = s[:cut] + r.choice(["%23", "%25", "%3E", "%"]) + s[cut:]
    return s


def attrs(r, n=None):
    n = (r.randint(1, 6) if r.random() < 0.97 else 0) if n is None else n   # 0: outside 1..6 but readable since fix 244ec83
    keys = []
    while len(keys) < n:
        k = r.choice(["ID", "Name", "Parent", "Note", "Dbxref", "gene", "product", "locus_tag"]) if r.random() < 0.5 else text(r, 0, 8)
        if k not in keys:
            keys.append(k)
    out = [str(n)]
    for k in keys:
        out += [k, text(r, 0, 20)]
    return out


def coords(r, n):
    """0-based half-open [start, end) inside a sequence of length n, extreme positions favoured"""
    t = r.random()
    if t < 0.03:        # not inside the sequence / start > end: coordinates must still round-trip (GetSequence panics)
        return r.choice([(n, n + 5), (r.randint(0, n) + 1, r.randint(0, n)), (0, 2 ** 31 + n), (-r.randint(1, 9), n)])
    if t < 0.1:
        return 0, n
    if t < 0.2:
        return 0, min(n, 1)
    if t < 0.3:
        return max(0, n - 1), n
    if t < 0.35:
        a = r.randint(0, n)
        return a, a
    a = r.randint(0, n)
    b = r.randint(a, n)
    return a, b


def feature(r, n, seqid=None, empties=True):
    a, b = coords(r, n)
    def opt(v):
        return "" if empties and r.random() < 0.1 else v
    return [opt(seqid if seqid is not None and r.random() < 0.8 else ident(r)), opt(r.choice(["poly", "GenBank", "."]) if r.random() < 0.6 else text(r, 1, 8)),
            opt(r.choice(["gene", "CDS", "region", "mRNA", "exon"]) if r.random() < 0.6 else text(r, 1, 8)),
            str(a), str(b), r.choice([".", "", "0.5", "1e-10", text(r, 0, 5)]), r.choice(["+", "-", ".", "?", "", text(r, 0, 4)]),
            r.choice([".", "0", "1", "2", "", text(r, 0, 4)])] + attrs(r)


def build_case(r, n, re_mode="len", nfeat=None, alphabet=None, name=None, empties=True):
    seq = randword(r, alphabet or r.choice(SEQA), n)
    name = ident(r) if name is None else name
    rend = {"len": n, "zero": 0, "70": 70, "len-1": n - 1, "len+1": n + 1, "mult": 70 * r.randint(0, max(1, n // 70)),
            "big": r.choice([2 ** 31, 2 ** 31 + n, 2 ** 32 + 1, 3 * 10 ** 12, 2 ** 62, -5])}[re_mode]
    rstart = r.choice([1, 1, 1, 0, r.randint(2, 50)]) if re_mode != "big" else r.choice([1, 1000000, 2 ** 31, 10 ** 12, -70])
    locus = r.choice(["", "", ident(r)])
    acc = r.choice(["", ident(r)])
    lsl = r.choice(["", "%d bp" % n, str(n), "bp"])
    ver = r.choice(["3", "3", "3.1.26", "", "3.2.1"])
    nfeat = r.randint(0, 30) if nfeat is None else nfeat
    c = ["build", name, ver, str(rstart), str(rend), locus, acc, lsl, seq, str(nfeat)]
    for _ in range(nfeat):
        c += feature(r, n, seqid=name or None, empties=empties)
    return c


def widths_text(r, n):
    t = r.random()
    if t < 0.3:
        w = r.choice([1, 2, 10, 60, 69, 70, 71, 80, 100, 200])
        return "%d*%d" % (w, n // w + r.randint(0, 2))
    if t < 0.4:
        return ""
    items, left = [], n
    while left > 0 and len(items) < 400:
        w = r.choice([0, 0, r.randint(1, 120)])
        items.append(str(w))
        left -= w
    return ",".join(items)


SKIPS = ["##sequence-region other 5 9", "##sequence-region", "", "", "# comment", "#", "#!processor poly", "# a\tb", "##species https://x/y?id=9", "##feature-ontology so.obo", "###", "###",
         "##FASTA ", "##", "#\u00e9t\u00e9 \u03b2"]


def skip_group(r, p=0.35, region=None):
    if r.random() > p:
        return []
    g = [r.choice(SKIPS) for _ in range(r.choice([1, 1, 2, 3]))]
    if region is not None and r.random() < 0.15:      # a later ##sequence-region line for the same name, other bounds: the first one counts
        g.append("##sequence-region %s %d %d" % (region, r.randint(2, 99), r.randint(100, 10 ** 6)))
    return g


def groups(c, gs):
    c.append(str(len(gs)))
    for g in gs:
        c.append(str(len(g)))
        c += g


def layout_case(r, n, nfeat=None, finding=None, plain_skips=False):
    """finding: None | 'semi' | 'crlf' | 'pre' | 'all' — writer choices on which gff.Parse failed before fixes 244ec83, 4e5b18b, aac6dbd"""
    if finding is None and not plain_skips:
        finding = r.choice([None, None, None, "semi", "crlf", "pre", "all"])
    seq = randword(r, r.choice(SEQA), n)
    region = ident(r)
    nfeat = r.randint(0, 30) if nfeat is None else nfeat
    rfirst = r.choice([1, 1, r.randint(0, 99), 2 ** 31, 10 ** 12])
    rlast = r.choice([n, n, r.randint(0, n + 70), 2 ** 31 + n, 3 * 10 ** 12])
    c = ["layout", r.choice(["3", "3.1.26", "3.2.1", "2"]), region, str(rfirst), str(rlast),
         r.choice([region, region + " " + text(r, 0, 20), ""]), seq, str(nfeat)]
    for _ in range(nfeat):
        f = feature(r, n, seqid=region, empties=r.random() < 0.1)      # empty columns reach Parse only through a writer
        # file coordinates are 1-based inclusive: [a, b) -> a+1 .. b
        f[3] = str(int(f[3]) + 1)
        c += f
    p = 0.0 if plain_skips else 0.35
    groups(c, [skip_group(r, p, region) for _ in range(nfeat)])
    after = r.choice([["###"], ["###"], [], ["# end of features", ""], ["", "###", "#"], ["##sequence-region %s 3 4" % region, "###"]])
    c.append(str(len(after)))
    c += after
    groups(c, [skip_group(r, 0.1, region) for _ in range(r.choice([0, 0, 0, 3, 8]))])
    c.append(widths_text(r, n))
    c.append(r.choice(["true", "true", "false"]))
    pre = [r.choice(["##species x", "##feature-ontology so.obo", "##genome-build NCBI B36 more words here", "#!processor poly", ""])
           for _ in range(r.randint(1, 3))] if finding in ("pre", "all") else []
    c.append(str(len(pre)))
    c += pre
    c.append("true" if finding in ("semi", "all") else "false")
    c.append("true" if finding in ("crlf", "all") else "false")
    return c


def dup_id_case(r, n):
    """two or more features carrying the same non-empty ID (parts of one discontinuous feature), and identical lines"""
    c = build_case(r, n, "len", nfeat=0)
    feats = []
    ident_ = ident(r)
    for _ in range(r.randint(2, 4)):
        a, b = coords(r, n)
        feats.append([c[1] or "s", "poly", "CDS", str(a), str(b), ".", "+", "0", "2", "ID", ident_, "Parent", "m1"])
    if r.random() < 0.5:
        feats.append(list(feats[0]))
    c[9] = str(len(feats))
    for f in feats:
        c += f
    return c


def cases(seed, tier):
    r = rng(seed, "C14")
    lmax = 150 if tier == "quick" else 430
    # every length (all residue classes mod 70) x RegionEnd variants, small feature sets; Build's text compared exactly
    for n in range(1, lmax + 1):
        modes = ["len", "zero"] if tier == "quick" and n % 70 not in (0, 1, 69) else ["len", "zero", "70", "len-1", "mult", "len+1"]
        for m in modes:
            c = build_case(r, n, m, nfeat=r.randint(0, 2), alphabet="ACGT")
            c[0] = "buildx"
            yield c
    for n in [70 * k + d for k in (10, 33, 71) for d in (-1, 0, 1)] + [5000]:
        for m in ["len", "zero", "mult"]:
            c = build_case(r, n, m, nfeat=r.randint(0, 3))
            c[0] = "buildx"
            yield c
    # features that end on the last base (also one-letter sequences), whole-sequence features
    for n in [1, 1, 2, 3, 69, 70, 71, 140, 141]:
        c = build_case(r, n, "len", nfeat=0, name="chr1")
        c[3] = "1"
        c[9] = "2"
        c += ["chr1", "poly", "gene", "0", str(n), ".", "+", ".", "1", "ID", "whole"]
        c += ["chr1", "poly", "CDS", str(n - 1), str(n), ".", "-", "0", "1", "ID", "lastbase"]
        yield c
    nrand = 1200 if tier == "quick" else 6000
    for _ in range(nrand):
        n = loglen(r, 1, 5000)
        yield build_case(r, n, r.choice(["len", "len", "len", "zero", "mult", "len+1", "70", "big"]))
    for _ in range(40 if tier == "quick" else 400):
        yield dup_id_case(r, r.randint(1, 300))
    # empty region name (Build's fallbacks; the name clause is vacuous, the rest is judged)
    for _ in range(20):
        yield build_case(r, r.randint(1, 300), "len", name="")
    # one sequence far beyond the quantifier's 5000: lines longer than 64 KiB (single-line FASTA) and a long wrapped record
    big = 70001 if tier == "quick" else 150001
    c = layout_case(r, big, nfeat=2, plain_skips=True)
    c[-5] = ""                      # widths: everything on one line
    yield c
    yield build_case(r, big, "len", nfeat=2)
    nlay = 800 if tier == "quick" else 4000
    for n in range(1, 142 if tier == "quick" else 282):
        yield layout_case(r, n, nfeat=r.randint(0, 2))
    for _ in range(nlay):
        yield layout_case(r, loglen(r, 1, 5000))
    # the three former findings (fixed by 244ec83, 4e5b18b, aac6dbd), each alone on small documents
    for fnd in ["semi", "crlf", "pre"]:
        for _ in range(3):
            yield layout_case(r, r.randint(1, 200), nfeat=r.randint(1, 3), finding=fnd)
    base = ["build", "chr1", "3", "1", "10", "", "", "", "ACGTACGTAC"]
    # known finding C14-hash-seqid: a seqid (or, for an empty seqid, Locus.Name) that begins with '#'
    yield base + ["1", "##x", "poly", "gene", "0", "4", ".", "+", ".", "1", "ID", "a"]
    yield base + ["2", "chr1", "poly", "gene", "0", "4", ".", "+", ".", "1", "ID", "a", "#x", "poly", "gene", "2", "9", ".", "-", ".", "1", "ID", "b"]
    yield ["build", "chr1", "3", "1", "10", "#locus", "", "", "ACGTACGTAC", "1", "", "poly", "gene", "0", "4", ".", "+", ".", "1", "ID", "a"]
    # seqids / locus names that look like percent-escapes (ordinary text for poly: must round-trip verbatim)
    yield base + ["3", "%23x", "poly", "gene", "0", "4", ".", "+", ".", "1", "ID", "a", "%25", "poly", "gene", "1", "5", ".", "+", ".", "1", "ID", "b",
                  "a%23b%3Ec", "poly", "gene", "2", "6", ".", "-", ".", "1", "ID", "c"]
    yield ["build", "%23chr", "3", "1", "10", "%23locus", "", "", "ACGTACGTAC", "2", "", "poly", "gene", "0", "4", ".", "+", ".", "1", "ID", "a",
           "%3Ex", "poly", "CDS", "4", "10", ".", "-", "0", "1", "ID", "b"]
    # seqids that begin with '>' (in domain: before ##FASTA such a line is a feature line)
    yield base + ["2", ">x", "poly", "gene", "0", "4", ".", "+", ".", "1", "ID", "a", ">", "poly", "CDS", "9", "10", ".", "-", "0", "1", "ID", "b"]
    yield ["build", ">chr1", "3", "1", "10", "", "", "", "ACGTACGTAC", "1", ">chr1", "poly", "gene", "0", "10", ".", "+", ".", "1", "ID", "a"]
    # out-of-domain probes (not judged unless the call hangs or panics where the model predicts a return)
    yield base + ["1", "chr1", "poly", "gene", "0", "4", ".", "+", ".", "0"]                       # no attributes
    yield base + ["1", "chr1", "poly", "gene", "0", "4", ".", "+", ".", "1", "ID", "a=b"]          # '=' in a value
    yield base + ["1", "chr1", "poly", "gene", "0", "4", ".", "+", ".", "1", "ID", "a;b"]          # ';' in a value
    yield base + ["1", "chr1", "po\tly", "gene", "0", "4", ".", "+", ".", "1", "ID", "a"]          # tab in a column
    yield ["build", "chr 1", "3", "1", "10", "", "", "", "ACGTACGTAC", "0"]                        # blank in the region name
    yield ["build", "chr1", "3", "1", "10", "", "", "", ">CGT#CGTAC", "0"]                         # '>' in the sequence
    yield ["build", "chr1", "3", "1", "4", "", "", "", "A\u00e9GT", "1", "chr1", "poly", "gene", "0", "2", ".", "+", ".", "1", "ID", "a"]  # non-ASCII sequence letter (Go slices bytes)
    yield ["build", "chr1", "3 x", "1", "10", "", "", "", "ACGT", "0"]                             # blank in the version (judged: the version is no judged field)
    yield base + ["1", "chr1", "poly", "gene", "7", "3", ".", "+", ".", "1", "ID", "a"]            # start > end (GetSequence panics)
    yield base + ["1", "chr1", "poly", "gene", "-3", "30", ".", "+", ".", "1", "ID", "a"]          # outside the sequence


TECHNIQUE = ("Lean 4 proof over an executable model of gff.Parse / gff.Build (statement by statement, panics explicit) against an "
             "independent GFF3 writer and a positional reading of 1-based inclusive coordinates; differential correspondence of "
             "the model with the real Build, Parse, Read, Write and GetSequence")
LEVEL_TEXT = ("parse_build: for every record satisfying the decidable predicate wfBuild (any sequence length, any number of features "
              "and attributes, any map iteration order) Parse(Build x) returns exactly `expected x`: every set field unchanged, unset "
              "fields as the defaults Build wrote; parse_build_preserves restates it clause by clause (region name and bounds, sequence, "
              "seqid, source, type, score, strand, phase, coordinates, attributes as a permutation). The FASTA part is proved through a "
              "newline-insensitivity lemma, so all residues modulo 70 and the RegionEnd exception are covered uniformly; "
              "parse_buildWith states it for ANY line-break rule in Build's FASTA loop, and accordingly the correspondence compares "
              "Build's text exactly through the definition line and up to newline positions inside the sequence. coords_build / "
              "coords_layout: GetSequence of a parsed feature is `bases seq first last` (1-based inclusive enumeration). "
              "Both coordinate theorems are stated on the features of the parse result (Forall2 against the input features). "
              "parse_layout (full strength): the parse of any text produced by the independent writer (arbitrary widths; blank, comment, "
              "directive, ### lines anywhere between features and inside the FASTA section; directives before ##sequence-region; column 9 "
              "with or without a final ';'; LF or CR LF; with or without the final line end) is what the document denotes.")
LEVEL_NOTE = ("Trusted: Lean kernel; the hand-written model's faithfulness is sampled by the correspondence check: Build's text byte for "
              "byte on the buildx cases (every length 1..150/430 x RegionEnd variants — this ties the 70-column rule and the RegionEnd "
              "exception, `buildBreak`, to the code) and, on the random build cases, exactly through the FASTA definition line and up to "
              "the position of newlines inside the sequence (justified by parse_buildWith, which holds for every line-break rule); Parse "
              "results field by field, GetSequence of every parsed feature, Write/Read through a file. Go slices the sequence by bytes: "
              "non-ASCII sequence letters are outside the model (seqChar).")
HARNESS_BIN = "run-io"
EXTRACT_BINS = []

# the same requests executed 8 at a time in concurrent goroutines (check: PARALLEL / harness: VERIF_PAR)
PARALLEL = {"quick": {"par": 8, "max_cases": 4000}, "thorough": {"par": 8, "max_cases": 40000, "race": True}}
