"""C03 — GenBank write-then-read is the identity; writing is deterministic; the text follows the flat-file layout."""
import os, sys
from common import *

RULE = ("structured records (`rec`): locus (name or none, length, one of poly's 12 molecule types or none, topology, division, date, unit), six "
        "metadata texts of ASCII words (single blanks; in 30 % of the free records 2 % of the gaps are runs of 2-3 blanks) with log-uniform "
        "length to MAXMETA characters (wrapping from 69), 0..5 references (Index positional, in 4 % of the free records unset or another token) "
        "(optional AUTHORS/TITLE/JOURNAL/PUBMED/REMARK), 0..4 extra keyword blocks (keys of 1..11 columns), 0..MAXFEAT features with "
        "0..8 qualifiers (printable ASCII values, to several hundred characters, never wrapped by the writer), location either cached "
        "text or structural (span incl. {0,0} and reversed / complement incl. of a complement / join / Join-less multi-operand node / nested, "
        "partial markers), sequence length log-uniform 1..MAXSEQ; half of the records are drawn inside the domain of parse_build_partial; and records in "
        "the image of the REAL parser (`img`): the same generated records laid out as NCBI-style or poly-style flat files (wrap widths, "
        "wrapped qualifiers, multi-line locations, final newline or not), files laid out by property C01's writer GbLayout.layoutFile (`img01`: "
        "value-less / unquoted qualifiers, repeated keys, omitted blocks, extras between blocks, operator locations) plus the single-record files of /repo/data. Every record is "
        "built 24 times in one process with its maps refilled in varying orders, and its first output is HELD while a different record is "
        "built and compared with a copy taken at once. non-trivial = at least one feature or one wrapped "
        "metadata block; distinct by case text")
EXHAUSTIVE = {"quick": False, "thorough": False}
TRUSTED_BASE = ["Spec/GbStrict.lean: the strict column reader standing for 'an independent reader' (typed from the NCBI flat-file description)",
                "mitchellh/go-wordwrap v1.0.0 transcribed by hand (Base/StrBuild.lean wrapGo), tied by correspondence only",
                "ASCII restriction: Go byte lengths vs runes are outside the model",
                "Model/Location.lean (property C02) supplies BuildLocationString and, for the domain predicate only, parseLocation",
                "Model/Genbank.lean + Lemmas/Genbank*.lean (property C01): the parser model and its composition theorem parseLoop_layout, on which parse_build_partial rests"]
ASSUMPTIONS = ["all text is printable ASCII",
               "a Go map is an association list with distinct keys; its iteration order is a universally quantified parameter of build",
               "'equal locations' is read modulo derived data of nodes WITH operands (never read by BuildLocationString / getFeatureSequence): their "
               "partial markers (the parser sets them on every ancestor of a marked span) and the Join flag of a node with several operands "
               "(normLoc); the expected text of a structural location in `abs` is Location.buildLoc, property C02's model: for structural "
               "locations the layout judgement is correspondence with C02's text, not an independent expectation",
               "the independent reader accepts lines of any length (Build never wraps qualifier values; a 600-letter /translation is one line) and "
               "reads the LOCUS line by tokens, not by NCBI's LOCUS columns (Build separates the fields by five blanks)",
               "a known finding is identified by the input class and by WHERE the reply fails, not by the bytes the present code writes, and only what the "
               "finding names is excused. C03-blank-run-at-wrap (syntactic class, writer MODEL's WrapString): every text read back (strict reader, "
               "Parse(Build(x)), Write/Read) is the one given except that a run of blanks which WrapString(a, 68) replaces by a line break may be shorter "
               "(>= 1 blank); every other character and every other run of blanks as given (allowedEq: the wrap positions of the value). "
               "C03-nameless-locus: only the NAME and the LENGTH (whose tokens shift into the name) are excused: the strict reader reads the "
               "implementation's text as it is, or with a placeholder name INSERTED into the implementation's own LOCUS line, and molecule type, topology, "
               "division, date and every line after the LOCUS line (byte for byte) must be as given; Parse(Build(x)) likewise. Anything else is an "
               "ordinary FAIL. If a reply on an input of either class PASSES (the recorded defect was repaired) and "
               "differs from the model, the case is drift: judge = skip, class suffix /kf-repaired — the model's bytes for a class input are not the standard, "
               "the property is. For a name-less record 'passes' means: Parse(Build(x)) returns the record (empty name) and the independent reader recovers "
               "everything the record has, under whatever name the LOCUS line carries (no line can carry an empty name: nameless_class_fails). The names an "
               "unsound repair would use as placeholder (`.`, `unnamed`, `{unnamed}`, `-`, `?`, `bp`, a number) are generated as ordinary named records",
               "round-trip exclusions are per field / per feature: a record with Circular && Linear is compared in everything but the topology, a feature "
               "with a qualifier key holding `/` or a cached text that does not denote its structure is skipped alone (seqEquivPart; class tag /rt-part); "
               "the round trip is judged on every record of the layout domain below 10^8 bases. Qualifier values may begin with, end with and contain "
               "quotation marks (in the domain since f2612ce; Build writes a value on one line, so the parser's continuation-line logic — where an inner "
               "quotation mark at a line end may still matter — is not reached by what Build writes; C01 judges it on its own layouts)",
               "layout domain: an extra keyword has at most 11 letters and a feature key at most 15 (the layout sets a key off from what follows by a blank; "
               "Build glues a longer one to its text, and Parse(Build(x)) already fails there); a feature without cached text carries a structure that is a "
               "location (wfLoc: no Join node without operands, no span on a node with operands) — for anything else the property demands nothing of the "
               "location column. The parser model is compared with the real parser where the round trip is demanded (wfSeqJ); `img`: the cached text must "
               "denote the reported structure when it is a location text (INSDC grammar, 3' marker on either side) — what parseLocation makes of `bX`, "
               "`acc:1..4`, `3^4` no property constrains",
               "an `img` / `img01` text on which genbank.Parse does not return although the parser model (C01) and parseLocation (C02) read it is a FAIL",
               "Write/Read is a history on ONE path: a longer record is written first, then the record under test; the file must equal Build(x), "
               "Read and ReadMulti must return the record, and a fresh path must get the same bytes. ReadMulti is compared only when no inner line "
               "of the text ends in `//` (ParseMulti cuts after such lines: property C01's noSlashEnd). io/genbank has one writer (Write) and the "
               "readers Read / ReadMulti of what it writes; ReadFlat / ReadFlatGz read NCBI dumps with a 10-line header that no exported writer produces",
               "SequenceCoding is compared only when the record says `bp` and has a length: Build writes the constant ` bp` and has no parameter for another unit",
               "EXCLUDED from 'every generated structured record', each a decidable conjunct of wfLayoutJ / wfSeqJ (Spec/GbStrict.lean) with its reason: "
               "a blank at either END of a metadata value (the keyword line cannot delimit it; genbank.Parse trims, so the parser's image has none); "
               "tabs, newlines, non-ASCII; a locus name with a blank; a non-numeric length; a date without a real month; 10^8 or more bases (round trip: the reader's ORIGIN counter limit); a molecule type outside poly's own list; an extra keyword "
               "that does not fit columns 1-11 or is one of the writer's own; a feature key longer than columns 6-20; Circular && Linear; a qualifier "
               "value beginning or ending with a quotation mark, a qualifier key with '/' or '='; a cached location text that does not denote the "
               "structure; Start/End on a node with operands, Join without operands, a one-operand node that is neither a join nor a double "
               "complement; a sequence with non-letters or of length 0",
               "Reference.Index is PRESERVED WHEN SET (any blank-free token; be39eee) and DEFAULTED to the position when unset: an unset Index reads "
               "back as the position by design (like the GFF defaults), and `abs` / the judge expect exactly that (refNum, withDefaultIndex); an Index "
               "holding a blank is excluded (the REFERENCE line separates number and range by blanks)",
               "IN the domain since the review (and judged): metadata with runs of blanks, name-less records (two known findings), any blank-free Reference.Index; features without location {0,0}, reversed / negative spans, Join-less multi-operand nodes, complement of complement (all pass)"]
PARTIAL = ["build_strict_layout_partial: proved on the judge's layout domain wfLayoutJ minus the two known findings (wfLayoutG = wfLayoutJ, a locus "
           "name, no run of blanks at a wrap point of WrapString(_, 68)): metadata with runs of blanks inside a line is covered. The class "
           "C03-blank-run-at-wrap is SYNTACTIC (clsBlankRun: a locus name, and for some metadata text WrapString writes fewer characters than the "
           "text has — computed from the value and the writer's wrap column, no reader in it; blank_run_class_syntactic: such a text holds two adjacent "
           "blanks). build_strict_layout_exact states the exact result on ALL of wfLayoutJ with a name: strictRead (build x o) = some (abs (expectedBack x)) "
           "(every text as its wrapped lines re-join). The clause FAILS on every record of either class (blank_run_class_fails: the record read back "
           "holds fewer characters of metadata text; nameless_class_fails: the strict reader never returns a record without a name), the three "
           "classes are pairwise disjoint and cover wfLayoutJ (layout_domain_partition; name-less first), so on wfLayoutJ the clause holds IFF the record "
           "is in the theorem's domain (layout_clause_iff). For a name-less record the record read back (expectedBack: tokens shifted) is a "
           "prediction checked on every case and on two kernel witnesses, not a theorem (class tag /lay = inside the theorem)",
           "parse_build (parse (build x o) ≈ ok x over the parser model of C01, on the judge's round-trip domain wfSeqJ): proved as "
           "parse_build_partial (Props/C03Parse.lean) under `covered x` = wfSeqJ minus the two known findings (wfLayoutG: runs of blanks allowed "
           "when none falls on a wrap point — general bridge lemma wrapText_breaks_general over the refined wrap relation WrappedS) && REFERENCE "
           "lines wrapped without loss && GbLayout.wf (toRec x). What `covered` still adds, with the reason: (1) [gone: a date now "
           "needs a real month in the judge's domain too — `01-PRI-2020` is not a date, and the real parser would read PRI as the division]; (2) no quotation mark in a qualifier key [C01 isQualKeyChar: such a key breaks C01's value-less "
           "/ unquoted layouts under the 9a46c6b rule]; (3) the location text is ONE INSDC-shaped expression [C01 isLocText]; (4) [gone: the judge's round-trip domain has the same bound — from base 10^8 on the ORIGIN counter fills "
           "its nine columns and genbank.Parse takes the sequence line for a keyword line]; (5) the REFERENCE line is not broken AT its own two blanks (`REFERENCE   1` / range on the next line: the real parser reads it, "
           "C01's layouts never break next to a blank) — any other wrapping of the line is covered; (6) [gone: C01's RRef carries the reference's own number since 1a12106; any blank-free Index, gaps, repeats, unset] "
           "(7) the two known findings (blank run at a wrap point, "
           "no locus name).",
           "parse_build_partial states the exact result (toSequence (toRec x)); an UNSET Reference.Index comes back as its position because that is what "
           "Build writes for it (be39eee: {Index:\"\"} at position 1 and {Index:\"1\"} give the same bytes) — `approx` and the judge compare with "
           "withDefaultIndex x and say so",
           "location STRUCTURE: approx includes `parseLocation (text read back) ≈ SequenceLocation` (modulo normLoc) for EVERY feature: for a cached "
           "text from wfSeq's cacheConsistent, for a structurally assembled feature by location_structure_read_back (Lemmas/GbLocStruct.lean: bridge "
           "locOf from C03's decidable domain to C02's Rep ∧ InRange ∧ Arity, then C02's parseLocation_tprint on the `a..b>` / `n..n` text Build "
           "writes). `covered` therefore also demands (8) locProved for structural locations: wfLoc and EITHER every span 0 <= Start < End and no "
           "one-operand node with the Join flag (any nesting of joins / merged complements / complement wrappers, any partial markers) OR the "
           "location is one span, then with any integers ({0,0}, -4..3, 1..0). Outside it — a negative / {0,0} / reversed span BELOW an operator "
           "(C02's Loc has no such coordinates), join(x) with one operand (no INSDC join) — the structure is judged on every case only: the real "
           "SequenceLocation of Parse(Build(x)) is compared with x's by locBeq ∘ normLoc",
           "known findings (judge FAILS, tagged): C03-blank-run-at-wrap, C03-nameless-locus (exactly Locus.Name == \"\")"]
PROOF_MODULES = ["PolyVerif.Props.C03", "PolyVerif.Props.C03Parse"]

MOLTYPES = ["DNA", "genomic DNA", "genomic RNA", "mRNA", "tRNA", "rRNA", "other RNA", "other DNA",
            "transcribed RNA", "viral cRNA", "unassigned DNA", "unassigned RNA"]
MOL_OK = [m for m in MOLTYPES if m not in ("genomic DNA", "other DNA", "unassigned DNA")]
DIVISIONS = "PRI ROD MAM VRT INV PLN BCT VRL PHG SYN UNA EST PAT STS GSS HTG HTC ENV".split()
MONTHS = "JAN FEB MAR APR MAY JUN JUL AUG SEP OCT NOV DEC".split()
FEATURE_KEYS = ["CDS", "gene", "misc_feature", "promoter", "terminator", "rep_origin", "primer_bind", "source", "regulatory",
                "mat_peptide", "sig_peptide", "misc_recomb", "transit_peptide", "exon", "intron", "5'UTR", "3'UTR", "RBS", "-10_signal",
                "protein_bind", "ncRNA", "tRNA", "mRNA", "variation", "oriT"]
QUAL_KEYS = ["gene", "product", "note", "label", "codon_start", "translation", "db_xref", "locus_tag", "protein_id", "function",
             "EC_number", "inference", "organism", "mol_type", "transl_table", "standard_name", "bound_moiety", "allele", "old_locus_tag"]
OTHER_KEYS = ["COMMENT", "DBLINK", "DBSOURCE", "PRIMARY", "CONTIG", "NID", "PROJECT", "SEGMENT", "BASE", "X", "MYKEYWORD01"]
VOCAB = ("the of and a in to is was for cloning vector plasmid Escherichia coli K-12 strain sequence complete genome synthetic construct "
         "DNA RNA protein gene encoding beta-lactamase origin replication promoter terminator region (bases 1 to 2686) J. Biol. Chem. "
         "268:1234-1240 (1993) Smith,J. and Jones,A.B. http://www.example.org/path?x=1&y=2 ; , . 3' 5' [direct] {submission} 100% "
         "pUC19 lacZ-alpha M13mp18 ~ | ^ * + = / \\ # $ < > ' ` e.g. i.e. et al. Saccharomyces cerevisiae S288C").split()
SUBKW = ["ORGANISM", "AUTHORS", "TITLE", "JOURNAL", "PUBMED", "REMARK"] * 4 + ["REFERENCE", "FEATURES", "ORIGIN", "SOURCE", "LOCUS"]
AA = "ACDEFGHIKLMNPQRSTVWY"


RUNS = [False]   # set per record: metadata may hold runs of 2-3 blanks (2 % of the gaps), as the parser's image does


def text(r, maxlen, p_empty=0.1, kw=False):
    """ASCII words separated by single blanks (or, when RUNS[0], now and then by 2-3), total length log-uniform up to maxlen"""
    if r.random() < p_empty:
        return ""
    target = loglen(r, 1, maxlen)
    words, n = [], 0
    while True:
        u = r.random()
        if u < 0.02:
            w = randword(r, "abcdefghijklmnopqrstuvwxyzABCXYZ0123456789_-", r.choice([60, 66, 67, 68, 69, 70, 90, 140]))
        elif u < 0.05:
            w = randword(r, "abcdefghijklmnopqrstuvwxyz", r.randint(1, 30))
        elif kw and u < 0.12:
            w = r.choice(SUBKW)
        else:
            w = r.choice(VOCAB)
        if words and n + 1 + len(w) > maxlen:
            break
        if not words and len(w) > maxlen:
            w = w[:maxlen]
        words.append(w)
        n += len(w) + (1 if len(words) > 1 else 0)
        if n >= target:
            break
    if RUNS[0]:
        out = words[0]
        for w in words[1:]:
            out += (" " if r.random() > 0.02 else r.choice(["  ", "   "])) + w
        return out[:maxlen].rstrip(" ")
    return " ".join(words)


def qual_value(r, key):
    if key == "translation":
        return randword(r, AA, loglen(r, 1, 600))
    u = r.random()
    if u < 0.1:
        return ""
    if u < 0.2:
        return str(r.randint(1, 9999))
    if u < 0.26:
        # arbitrary printable ASCII, quotation marks only inside
        s = randword(r, "".join(chr(c) for c in range(32, 127)), loglen(r, 1, 120))
        if r.random() < 0.8:
            s = s.replace('"', "'")
        s = s.strip('"')
        return s
    if u < 0.3:
        # quotation marks at either end, doubled, alone (in the round-trip domain since f2612ce)
        w = text(r, 40, p_empty=0.2)
        return r.choice(['"%s"', '"%s', '%s"', 'he said "%s"', '""%s', '%s""', 'a""%s', '"', '""', '"""', '%s "x" "y"']).replace("%s", w)
    return text(r, 400, p_empty=0)


# ---- locations: ('span', s, e, fp, tp) | ('compl', node) | ('join', [nodes])

def gen_loc(r, seqlen, depth=0):
    seqlen = max(seqlen, 2)
    def span():
        s = r.randrange(0, seqlen - 1) if r.random() < 0.9 else r.randrange(0, 10 ** 6)
        e = r.randint(s + 1, max(s + 1, min(seqlen, s + 1 + r.randint(0, 500))))
        if r.random() < 0.15:
            e = s + 1
        return ("span", s, e, r.random() < 0.12, r.random() < 0.12)
    u = r.random()
    if u < 0.03:
        return ("span", 0, 0, False, False)            # a feature assembled without location
    if u < 0.05:
        s = r.randrange(0, seqlen); return ("span", s, r.randrange(0, s + 1), False, False)   # stop <= start
    if depth >= 3 or u < 0.5:
        return span()
    if u < 0.7:
        n = gen_loc(r, seqlen, depth + 1)
        return ("compl", n)                            # also the complement of a complement
    k = r.choice([1, 2, 2, 3, 4, 6])
    ops = [gen_loc(r, seqlen, depth + 1) for _ in range(k)]
    return ("join", ops) if (k == 1 or r.random() < 0.7) else ("group", ops)   # group: several operands, Join unset


def loc_has(t, p):
    if p(t):
        return True
    if t[0] == "span":
        return False
    return loc_has(t[1], p) if t[0] == "compl" else any(loc_has(x, p) for x in t[1])


def loc_proved(t):
    """inside Spec.GbStrict.locProved (the structural locations for which parseLocation(buildLoc p) ≈ p is a theorem):
    one span with any integers, or every span 0 <= start < end and no one-operand join"""
    if t[0] == "span":
        return True
    def inner(q):
        if q[0] == "span":
            return 0 <= q[1] < q[2]
        if q[0] == "compl":
            return inner(q[1])
        return len(q[1]) >= 2 and all(inner(x) for x in q[1])
    return inner(t)


def loc_flags(t):
    if t[0] == "span":
        return (t[3], t[4])
    if t[0] == "compl":
        return loc_flags(t[1])
    fl = [loc_flags(x) for x in t[1]]
    return (any(f[0] for f in fl), any(f[1] for f in fl))


def loc_ser(t, propagate, compl=False):
    """poly.Location serialisation "(start end cjft subs...)"; propagate = partial markers also on nodes with operands
    (as the parser sets them); compl = set Complement on this (non-complement) node"""
    b = lambda x: "1" if x else "0"
    if t[0] == "span":
        return "(%d %d %s0%s%s)" % (t[1], t[2], b(compl), b(t[3]), b(t[4]))
    if t[0] == "compl":
        if t[1][0] != "compl":
            return loc_ser(t[1], propagate, True)
        # the complement of a complement: a node of its own around the complemented operand
        f5, f3 = loc_flags(t) if propagate else (False, False)
        return "(0 0 10%s%s %s)" % (b(f5), b(f3), loc_ser(t[1], propagate))
    f5, f3 = loc_flags(t) if propagate else (False, False)
    return "(0 0 %s%s%s%s %s)" % (b(compl), "1" if t[0] == "join" else "0", b(f5), b(f3),
                                  " ".join(loc_ser(x, propagate) for x in t[1]))


def loc_text(t, insdc):
    """location text; insdc=False is exactly what BuildLocationString prints"""
    if t[0] == "span":
        _, s, e, fp, tp = t
        if insdc and e == s + 1 and not fp and not tp:
            return str(e)
        if insdc:
            return ("<" if fp else "") + str(s + 1) + ".." + (">" if tp else "") + str(e)
        return ("<" if fp else "") + str(s + 1) + ".." + str(e) + (">" if tp else "")
    if t[0] == "compl":
        return "complement(" + loc_text(t[1], insdc) + ")"
    return "join(" + ",".join(loc_text(x, insdc) for x in t[1]) + ")"      # join and group alike


# ---- records

def gen_record(r, maxseq, maxfeat, maxmeta, cached_mode, shadow=False, covered=False):
    """covered=True: a record inside `covered` (the domain of theorem parse_build_partial): what is kept fixed is exactly what
    `covered` still demands — positional Index, single-spaced text, REFERENCE lines that fit, a real month, no negative
    coordinate, a locus name; everything else (12 molecule types or none, optional topology / division / date / length /
    range, units, wide keys, inner quotation marks) varies as in the free half"""
    RUNS[0] = (not covered) and r.random() < 0.3
    n = loglen(r, 1, maxseq)
    alphabet = r.choice(["acgt", "acgt", "ACGT", "acgtnrykmswbdhv", "ACGTacgtNn", "acgu"])
    seq = randword(r, alphabet, n)
    name = r.choice(["pUC19", "puc19", "NC_001416", "AB123456.1", "test", "x", "my-plasmid_v2", "pBR322", r.choice([".", "unnamed", "-", "{unnamed}", "?"]),
                     randword(r, "abcdefghijklmnopqrstuvwxyz0123456789_", r.randint(1, 16)),
                     randword(r, "ABCEFGHJKLMOQUWXZ0123456789", r.randint(1, 10))])
    mol = r.choice(MOLTYPES + ["", "DNA", "DNA"])
    if shadow:
        # names holding a molecule type / division / date / topology token (repaired defect C03-locus-search)
        name = r.choice(["pDNA3", "SYNB1", "mRNAx", "PRIMER7", "x01-JAN-2001y", "linear", "circular", "genomicDNA", "tRNA"])
    u = r.random()
    rec = {
        "name": name,
        "seqlen": str(n) if r.random() < 0.85 else r.choice(["", "7", "42", "123456"]),
        "mol": mol, "div": r.choice(DIVISIONS + [""]),
        "date": "%02d-%s-%04d" % (r.randint(1, 31), r.choice(MONTHS), r.randint(1980, 2030)) if r.random() < 0.9 else "",
        "coding": "bp" if r.random() < 0.9 else r.choice(["", "aa", "rc"]), "circ": u < 0.4, "lin": 0.4 <= u < 0.9,
        "defi": text(r, maxmeta), "acc": text(r, 40), "ver": text(r, 40), "kw": text(r, maxmeta // 4),
        "src": text(r, maxmeta // 2, kw=r.random() < 0.15), "org": text(r, maxmeta),
    }
    if (not covered) and r.random() < 0.02:
        rec["name"] = ""                                # a record assembled without a locus name (known finding)
    refs = []
    renumber = r.random() < 0.15      # own reference numbers (be39eee): unset, gaps, repeats, 0, any token
    for i in range(r.choice([0, 0, 1, 1, 2, 3, 4, 5])):
        refs.append((r.choice(["", str(i + 2), str(2 * i + 3), "7", "0", "12a"]) if renumber else str(i + 1), text(r, maxmeta // 2, 0.2, kw=r.random() < 0.15), text(r, maxmeta // 2, 0.2, kw=r.random() < 0.15),
                     text(r, 200, 0.2), text(r, 12, 0.4), text(r, maxmeta // 2, 0.5),
                     "" if r.random() < 0.15 else
                     ("(bases %d to %d)" % (r.randint(1, n), n) if (covered or r.random() < 0.85) else
                      "(bases " + "; ".join("%d to %d" % (a, a + 9) for a in range(1, r.choice([60, 100, 400]), 20)) + ")")))
    rec["refs"] = refs
    keys = r.sample(OTHER_KEYS + [randword(r, "ABCDEFGHIJKLMNOPQRSTUVWXYZ", r.randint(1, 11)) for _ in range(2)], r.choice([0, 0, 1, 1, 2, 4]))
    keys = [k for k in dict.fromkeys(keys) if k not in ("LOCUS DEFINITION ACCESSION VERSION KEYWORDS SOURCE ORGANISM REFERENCE AUTHORS "
                                                          "TITLE JOURNAL PUBMED REMARK FEATURES ORIGIN").split()]
    rec["other"] = [(k, text(r, maxmeta, 0.1, kw=r.random() < 0.15)) for k in keys]
    feats = []
    nf = r.choice([0, 1, 2, 3, 5, 8]) if r.random() < 0.8 else r.randint(0, maxfeat)
    for _ in range(nf):
        t = gen_loc(r, n)
        cached = {"all": True, "none": False, "mixed": r.random() < 0.5}[cached_mode]
        insdc = r.random() < 0.3
        qk = r.sample(QUAL_KEYS, r.randint(0, 8))
        attrs = [(k, qual_value(r, k)) for k in qk]
        if covered and loc_has(t, lambda q: q[0] == "span" and q[1] < 0):
            t = ("span", 0, 1, False, False)
        if covered and not cached:
            for _ in range(6):
                if loc_proved(t):
                    break
                t = gen_loc(r, n)
            else:
                t = ("span", 0, 1, False, False)
        feats.append((r.choice(FEATURE_KEYS), loc_text(t, insdc) if cached else "", loc_ser(t, cached or r.random() < 0.5), attrs, t))
    rec["feats"] = feats
    rec["seq"] = seq
    RUNS[0] = False
    return rec


def rec_fields(R):
    f = [R["name"], R["seqlen"], R["mol"], R["div"], R["date"], R["coding"], "1" if R["circ"] else "0", "1" if R["lin"] else "0",
         R["defi"], R["acc"], R["ver"], R["kw"], R["src"], R["org"], str(len(R["refs"]))]
    for q in R["refs"]:
        f += list(q)
    f.append(str(len(R["other"])))
    for k, v in R["other"]:
        f += [k, v]
    f.append(str(len(R["feats"])))
    for ft in R["feats"]:
        f += [ft[0], ft[1], ft[2], str(len(ft[3]))]
        for k, v in ft[3]:
            f += [k, v]
    f.append(R["seq"])
    return f


# ---- laying a record out as a flat file (input of the REAL parser for the `img` cases)

def wrap(words_text, width):
    lines, cur = [], ""
    for w in words_text.split(" "):
        if cur and len(cur) + 1 + len(w) > width:
            lines.append(cur); cur = w
        else:
            cur = (cur + " " + w) if cur else w
    lines.append(cur)
    return lines


def layout(r, R, style):
    out = []
    shape = "circular" if R["circ"] else ("linear" if R["lin"] else "")
    if style == "poly":
        out.append("LOCUS       " + "     ".join([R["name"], R["seqlen"] + " bp", R["mol"], shape, R["div"], R["date"]]))
    else:
        out.append("LOCUS       %-16s %11s bp    %-6s  %-8s %s %s" % (R["name"], R["seqlen"], R["mol"], shape, R["div"], R["date"]))
    width = r.choice([67, 67, 58, 40, 68])
    def block(key, txt):
        ls = wrap(txt, width)
        out.append("%-12s%s" % (key, ls[0]))
        for l in ls[1:]:
            out.append(" " * 12 + l)
    block("DEFINITION", R["defi"]); block("ACCESSION", R["acc"]); block("VERSION", R["ver"]); block("KEYWORDS", R["kw"])
    block("SOURCE", R["src"]); block("  ORGANISM", R["org"])
    for q in R["refs"]:
        block("REFERENCE", q[0] + "  " + q[6])
        for key, v in (("  AUTHORS", q[1]), ("  TITLE", q[2]), ("  JOURNAL", q[3]), ("   PUBMED" if style == "ncbi" else "  PUBMED", q[4]), ("  REMARK", q[5])):
            if v:
                block(key, v)
    for k, v in sorted(R["other"]):
        block(k, v)
    out.append("FEATURES             Location/Qualifiers")
    qwidth = r.choice([58, 58, 40, 1000])
    for (ty, gl, ls, attrs, t) in R["feats"]:
        lt = gl or loc_text(t, style == "ncbi")
        pieces = [lt]
        if style == "ncbi" and "," in lt and len(lt) > 30:
            # break a long location after commas
            pieces, cur = [], ""
            for part in lt.split(","):
                part2 = part + ","
                if cur and len(cur) + len(part2) > 58:
                    pieces.append(cur); cur = part2
                else:
                    cur += part2
            pieces.append(cur)
            pieces[-1] = pieces[-1][:-1]
        out.append("     %-16s%s" % (ty, pieces[0]))
        for p in pieces[1:]:
            out.append(" " * 21 + p)
        for k, v in attrs:
            q = '/%s="%s"' % (k, v)
            if len(q) <= qwidth or v.startswith(" ") or v.endswith(" ") or "  " in v:
                qs = [q]
            elif k == "translation" or " " not in v:
                qs = [q[i:i + qwidth] for i in range(0, len(q), qwidth)] if k == "translation" else [q]
            else:
                qs = wrap(q, qwidth)
            if any(x == "" for x in qs):
                qs = [q]
            for x in qs:
                out.append(" " * 21 + x)
    out.append("ORIGIN" if r.random() < 0.7 else "ORIGIN      ")
    s = R["seq"]
    for i in range(0, len(s), 60):
        out.append("%9d %s" % (i + 1, " ".join(s[i + j:i + j + 10] for j in range(0, min(60, len(s) - i), 10))))
    out.append("//")
    return "\n".join(out) + ("\n" if r.random() < 0.5 else "")


DATA_FILES = ["puc19.gbk", "puc19_snapgene.gb", "sample.gbk", "t4_intron.gb", "phix174.gb", "pichia_chr1_head.gb"]


def probes():
    """boundary probes; several lie outside the round-trip or the layout domain (then only the correspondence is compared)"""
    base = dict(name="test", seqlen="12", mol="DNA", div="SYN", date="01-JAN-2020", coding="bp", circ=False, lin=True,
                defi="d", acc="a", ver="v", kw="k", src="s", org="o", refs=[], other=[], feats=[], seq="acgtacgtacgt")
    def P(**kw):
        d = dict(base); d.update(kw); return ["rec"] + rec_fields(d)
    F = lambda ty, gl, loc, attrs: (ty, gl, loc, attrs, None)
    yield P()
    yield P(name="", seqlen="", mol="", div="", date="", coding="", lin=False, defi="", acc="", ver="", kw="", src="", org="", seq="a")
    yield P(seqlen="", coding="")
    yield P(seq="")
    yield P(seq="acgt*-12")
    yield P(circ=True, lin=True)
    for n in (59, 60, 61, 119, 120, 121, 9, 10, 11):
        yield P(seq="acgtnACGTN"[:10] * (n // 10) + "acgtnacgtn"[:n % 10], seqlen=str(n))
    for m in MOLTYPES + ["", "ss-DNA", "cRNA"]:
        yield P(mol=m)
    for d in ("a  b", " a b ", "a\tb", "a\nb", "x" * 68, "x" * 69, "a " + "x" * 67, "a " + "x" * 66, "a " + "x" * 68, " ".join(["ab"] * 30),
              " ".join(["abcdefghi"] * 6 + ["bbbbbbb", "x"]), " ".join(["abcdefghi"] * 6 + ["bbbbbbbb", "x"])):
        yield P(defi=d)
    for k in ("K", "ABCDEFGHIJK", "ABCDEFGHIJKL", "ABCDEFGHIJKLM", "a b", "FEATURES", "ORIGIN", "TITLE", "//"):
        yield P(other=[(k, "v w")])
    yield P(other=[("B", "2"), ("A", "1"), ("a", "3"), ("AB", "4"), ("Z9", "")])
    for ty in ("a" * 15, "a" * 16, "a" * 17, ""):
        yield P(feats=[F(ty, "", "(0 9 0000)", [("x", "y")])])
    yield P(refs=[("7", "A", "", "", "", "", "")])
    yield P(refs=[("", "A", "T", "", "", "", "(bases 1 to 5)")])
    yield P(refs=[("1", "A", "T", "J", "P", "R", "(bases 1 to 5)"), ("2", "", "", "", "", "", "")], other=[("COMMENT", "x")])
    yield P(refs=[("1", "", "", "", "", "", "x" * 66)])
    yield P(refs=[("1", "", "", "", "", "", "x" * 65 + " y")])
    yield P(refs=[("1", "", "", "", "", "", "x" * 70 + " y")])
    # names that a repair of the name-less finding would use as its placeholder are ordinary names
    for nm in (".", "unnamed", "{unnamed}", "-", "unknown", "?", "bp", "4", "12", "x"):
        yield P(name=nm)
        yield P(name=nm, seqlen="")
    for v in ('say "hi"', '"quoted"', 'in "mid" dle', " lead trail ", "x=y=z", "/slash", "", "a  b", "M" * 300, 'x"', 'he said "hi"', '"', '""',
              '"""', 'a""b', '"a', '""a', 'a""', '"a"b"', ' "a" '):
        yield P(feats=[F("CDS", "", "(0 9 0000)", [("note", v)])])
    yield P(feats=[F("CDS", "", "(0 9 0000)", [("b", "2"), ("a", "1"), ("ab", "3"), ("B", "4")]), F("gene", "", "(0 5 0000)", [])])
    for loc in ("(0 0 0000)", "(4 5 0000)", "(0 5 0011)", "(0 5 1000)", "(0 0 0100 (0 5 0000) (6 9 0000))", "(0 0 1100 (0 5 0000) (6 9 0000))",
                "(0 0 0100 (0 5 0010) (6 9 1001))", "(0 0 0111 (0 5 0010) (6 9 1001))", "(0 0 0100)", "(5 2 0000)", "(-3 2 0000)",
                "(0 0 0100 (0 0 0100 (0 2 0000) (3 4 0000)) (6 9 0000))", "(3 9 0100 (0 5 0000))"):
        yield P(feats=[F("misc_feature", "", loc, [("k", "v")])])
    yield P(feats=[F("misc_feature", "join(1..5,7..9)", "(0 0 0100 (0 5 0000) (6 9 0000))", [])])
    yield P(feats=[F("misc_feature", "1..5", "(0 0 0000)", [])])          # cached text that does not denote the location
    yield P(feats=[F("misc_feature", "5", "(4 5 0000)", [])])
    yield P(feats=[F("misc_feature", "<1..>5", "(0 5 0011)", [])])


def cases(seed, tier):
    r = rng(seed, "C03")
    for c in probes():
        yield c
    quick = tier == "quick"
    nrec, nimg = (170, 90) if quick else (2500, 1200)
    maxseq, maxmeta = (3000, 2000) if quick else (20000, 2000)
    for i in range(nrec):
        mode = ["none", "all", "mixed"][i % 3]
        big = (i % 40 == 7)
        R = gen_record(r, maxseq, 40 if (big or not quick) else 12, maxmeta if i % 3 else 300, mode, shadow=(i % 12 == 11),
                       covered=(i % 2 == 0))
        yield ["rec"] + rec_fields(R)
    for i in range(nimg):
        R = gen_record(r, maxseq // 2, 40 if not quick else 10, maxmeta if i % 4 == 0 else 300, "all", covered=(i % 2 == 0))
        yield ["img", layout(r, R, r.choice(["ncbi", "ncbi", "poly"]))]
    # files laid out by property C01's independent writer (value-less / unquoted qualifiers, repeated keys, omitted blocks,
    # extras between the standard blocks, operator locations, every LOCUS shape): `img01 <C01 case>`, rendered by C01's `render`
    try:
        import importlib.util
        sp = importlib.util.spec_from_file_location("gen_c01_for_c03", os.path.join(os.path.dirname(os.path.abspath(__file__)), "c01.py"))
        c01 = importlib.util.module_from_spec(sp); sp.loader.exec_module(c01)
        want = 120 if quick else 1500
        got = 0
        for k, c in enumerate(c01.cases(seed, tier)):
            c = list(c)
            # one record, mode parse, no flat-file header:  c01 parse finalNewline header nrec record…
            if len(c) > 5 and c[0] == "c01" and c[1] == "parse" and c[3] == "0" and c[4] == "1" and k % 3 == 0:
                yield ["img01"] + c
                got += 1
                if got >= want:
                    break
    except Exception as e:                              # C01's generator is another worker's file: its absence must not hide C03's own cases
        sys.stderr.write("[c03] C01 cases not available: %r\n" % (e,))
    # the long records the property names
    for n in ([10000] if quick else [60000, 99999, 100000]):
        R = gen_record(r, 10, 40, 2000, "mixed")
        R["seq"] = randword(r, "acgt", n); R["seqlen"] = str(n)
        yield ["rec"] + rec_fields(R)
        yield ["img", layout(r, R, "ncbi")]
    for fn in DATA_FILES:
        p = os.path.join(os.environ.get("VERIF_REPO", "/repo"), "data", fn)
        try:
            t = open(p, encoding="latin-1").read()
        except OSError:
            continue
        if 0 < len(t) < 200000 and all(ord(ch) < 128 for ch in t):
            yield ["img", t.replace("\r\n", "\n")]


TECHNIQUE = ("Lean 4 proof over a transcription of genbank.Build (incl. go-wordwrap) with the map iteration order as a universally quantified "
             "parameter, against an independent strict column reader; differential correspondence on Build output, repeated builds, "
             "Parse(Build(x)) and Write/Read")
LEVEL_TEXT = ("Determinism (all map iteration orders), the wrap/unwrap inversion for single-spaced "
              "text of any length and the layout clause (strictRead (build x o) = some (abs x) for every record of the decidable layout domain: "
              "any number of blocks, references, features, qualifiers, any text and sequence length) are kernel-checked theorems about the model; "
              "the write-then-read clause is a theorem over the parser model of property C01 for the records C01's abstract record type "
              "expresses (parse_build_partial) and is judged on the REAL parser for every case (real Parse(real Build(x)) ≈ x, Write/Read "
              "through a file); the parser model itself is compared with the real parser on every written text.")
LEVEL_NOTE = ("Share of the thorough tier's judged cases inside the theorems' domains (class tags /lay and /pb in the evidence's class histogram; "
              "last thorough run, 15664 judged): build_strict_layout_partial 91.2 % (all but the two known findings, 8.8 %; on these the exact result / the failure "
              "is a theorem too: build_strict_layout_exact, blank_run_class_fails, nameless_class_fails), parse_build_partial 84.4 % "
              "(the rest: the two known findings, plus 6.9 %: structural locations outside locProved — a {0,0} / reversed / negative span below an operator, "
              "join(x) with one operand — and, 0.1 %, quotation marks in qualifier keys, location texts that are not one expression, a "
              "REFERENCE line broken at its own two blanks); 15 % of the cases carry own / unset reference numbers, all inside the theorems. Trusted: Lean kernel; harness + pm_C03 judge; the hand transcription of go-wordwrap and of Build (tied by correspondence on every "
              "case, byte for byte); the strict reader as the meaning of 'independent reader'; ASCII.")

HARNESS_BIN = "run-genbank"
EXTRACT_BINS = []
TIMEOUT_MS = 30000

# the same requests executed 8 at a time in concurrent goroutines (check: PARALLEL / harness: VERIF_PAR)
PARALLEL = {"quick": {"par": 8, "max_cases": 4000}, "thorough": {"par": 8, "max_cases": 40000, "race": True}}
