"""C05 — seqhash separates molecules, v1 form, rejections."""
from common import *

from seqfam import structured

RULE = ("form: one Hash call judged against 'v1_' + tag + '_' + hex(BLAKE3(canonical representative)) with the representative computed "
        "from the arg-min spec and the independent code-set complement, or 'err' exactly when the input is not acceptable. partition: Hash of "
        "EVERY word of length n over an alphabet under a flag pair; the partition by real hash is compared with the partition into molecules "
        "computed by BRUTE FORCE (enumerated orbits: every rotation if circular, of the word and of its other strand if double-stranded) - same "
        "hash => same molecule, and every orbit member has the word's hash. Exhaustive families: partition ACGT^n (n <= NP) x 4 flag pairs (DNA), "
        "ACGTU^n and ACGTUZ^n under DNA (U under DNA: known finding C05-dna-u-strand, the judge FAILS there exactly in the known class), ACGTU^n "
        "under RNA (mixed T/U spellings), IUPAC15^n, ACGZ^n, a 20-letter protein alphabet; form ACGT^<=LF x 4 flag pairs, every protein-alphabet "
        "string to length LP, EVERY single ASCII code point 0..127 as a letter in first / middle / last position under each type (and under "
        "circular / double-stranded flags), pairs of invalid letters, invalid letter + invalid type, non-ASCII letters including U+017F and U+0131 "
        "(which Unicode upper-casing folds to S and I). thorough: NP=9, LF=6, LP=3; quick: NP=5, LF=4, LP=2. Then random accepted inputs to 1200 "
        "letters (with U and Z under DNA), a few long ones (linear to 10^5, circular to 5000) and structured inputs (gen/seqfam.py: reverse-palindromes, near-palindromes, odd centre, periodic words). "
        "EXHAUSTIVE (thorough) refers to these families: the ACGT^n partitions for n <= 9 x 4 flag pairs (the property's 'all 4^n DNA strings, partition by "
        "hash = brute-force orbit partition'), protein strings to length 3, every single ASCII letter; form cases are exhaustive only to length LF. "
        "non-trivial = accepted input of length >= 2; distinct by case text")
EXHAUSTIVE = {"quick": False, "thorough": True}
TRUSTED_BASE = ["collision-freeness of BLAKE3 is a hypothesis (Function.Injective blake) of the separation theorem, not an axiom",
                "Base/Blake3.lean (Lean BLAKE3, 32-byte length proved: sum256_length) is used by the judge and compared with the vendored Go BLAKE3 "
                "only through seqhash.Hash (the form cases); there is no separate digest op"]
ASSUMPTIONS = ["false-alarm rule for known finding C05-dna-u-strand (the model mirrors the defect): on DNA inputs containing U, replies that differ "
               "from the model but satisfy the property under a repaired reading - the input is rejected (the statement lets the DNA alphabet "
               "exclude U), or it is hashed in the v1 form of the sequence with U read as T (as under RNA); for a partition family: exactly the "
               "words with U rejected and the rest partitioned right, or partition by hash = brute-force orbit partition of the U->T-folded words - "
               "are judged PASS and counted as drift (class suffix /kf-repaired), not as a correspondence DIFF; when the judge fails there the "
               "usual rules apply (Driver/C05.lean, same rule in Driver/C04.lean). The reading must be ONE for the whole run: `ureading` cases hash "
               "DNA words containing U (several lengths) under all four flag pairs in one request and FAIL unless model / rejected / U-read-as-T "
               "fits every reply; under a repaired reading every reply must also correspond to the model applied to the U->T-folded word",
               "BLAKE3 has no collisions among the inputs explored (hypothesis of hash_inj_partial)",
               "'sequence' in the separation clause means the normalised sequence: upper-cased (C04's case clause) and, under type RNA, with U read "
               "as T (the first statements of Hash identify the two spellings under RNA by design; Props/C05 rna_reads_u_as_t)",
               "non-ASCII input is rejected by the first statement of Hash (modelled explicitly); on ASCII the model's upper-casing is Go's strings.ToUpper"]
PARTIAL = ["separation clause: hash_inj at full strength is REFUTED on the model of the code (Props/C05 hash_inj_dna_u_witness, known finding "
           "C05-dna-u-strand: U is accepted under type DNA and complements to A like T, so double-stranded DNA inputs differing only in U vs T "
           "collide). Proved instead: hash_inj_partial / model_hash_inj_partial under a SUFFICIENT hypothesis (double-stranded DNA inputs contain no "
           "U; this also excludes harmless inputs such as ACU), and the unconditional pair hash_collision_class (collision => same molecule OR the "
           "residue class: double-stranded DNA, one input contains U, same other strand up to rotation, and the other strand is the hashed one "
           "for both - an upper bound on the collision set) / hash_collision_of_residue (the converse: that residue always collides), which "
           "together characterise the collisions exactly. The driver's class predicate knownSep is the residue without the 'hashed strand' "
           "conjuncts: necessary for a collision, not sufficient (AAU/AAT), applied to observed failing pairs only, and the kf tag also requires "
           "implementation = model on every word. Z is covered by the separation theorems (nothing collides with Z: injectivity of the regenerated complement table); the judge does not judge the STRAND clauses on double-stranded inputs containing Z (class strand-undefined: the property defines no other strand for Z, which is not a nucleotide code; correspondence with the model is still enforced there).",
           "completeness (same molecule => same hash; with C04 it makes hash partition = orbit partition): REFUTED in the same class "
           "(hash_same_molecule_dna_u_witness: CUC and GAG, linear double-stranded DNA, GAG = rc CUC, different hashes for every injective digest). "
           "Proved: hash_same_molecule_partial under 'double-stranded DNA inputs contain no U' and 'double-stranded inputs contain no Z' (the property defines no other strand for Z; the theorem does not depend on what the complement table answers for it).",
           "Form, hex length and the three rejection clauses are proved in full."]
TIMEOUT_MS = 120000

PROT = "ACDEFGHIKLMNPQRSTVWYUO*BXZ"
FLAGS = [("true", "true"), ("true", "false"), ("false", "true"), ("false", "false")]
NONASCII = ["\u017f", "\u0131", "\u00e9", "\u03a9", "\u0410", "\u0391", "\uff21", "\u00c5", "\u0421", "\u0422", "\u03a4", "\u00df",
            "\u212a", "\u4e2d", "\U0001d400", "\u00a0", "\u200b", "\u0130", "\u01c5", "\ufb01"]

def cases(seed, tier):
    r = rng(seed, "C05")
    quick = tier == "quick"
    LF, LP, NP = (4, 2, 5) if quick else (6, 3, 9)
    for w in words(ACGT, LF, 0):
        for (c, d) in FLAGS:
            yield ["form", w, "DNA", c, d]
    for w in words(PROT, LP, 1):
        yield ["form", w, "PROTEIN", r.choice(["true", "false"]), "false"]
    # --- partitions against brute-force orbits
    for n in range(1, NP + 1):
        for (c, d) in FLAGS:
            yield ["partition", ACGT, str(n), "DNA", c, d]
    NU, NZ, NI = (3, 2, 2) if quick else (5, 4, 3)
    for (c, d) in FLAGS:
        for n in range(1, NU + 1):
            yield ["partition", "ACGTU", str(n), "DNA", c, d]      # ds: known finding C05-dna-u-strand
            yield ["partition", "ACGTU", str(n), "RNA", c, d]      # mixed T/U spellings of RNA
            yield ["partition", "ACGU", str(n), "RNA", c, d]
        for n in range(1, NZ + 1):
            yield ["partition", "ACGTUZ", str(n), "DNA", c, d]
            yield ["partition", "ACGTZ", str(n), "DNA", c, d]      # Z alone collides with nothing
            yield ["partition", "ACGUZ", str(n), "RNA", c, d]
        for n in range(1, NI + 1):
            yield ["partition", IUPAC15, str(n), "DNA", c, d]
    yield ["partition", "ACGU", "3", "DNA", "false", "true"]
    for (c, d) in FLAGS:       # mixed case: two spellings of one normal form (consistency), u under double-stranded DNA
        yield ["partition", "ACGTUu", "2", "DNA", c, d]
        yield ["partition", "acgTu", "2" if quick else "3", "DNA", c, d]
        yield ["partition", "aCgtUu", "2", "RNA", c, d]
    yield ["partition", "ACDEFGHIKLMNPQRSTVWY", "2", "PROTEIN", "true", "false"]
    yield ["partition", "ACDEFGHIKLMNPQRSTVWY", "2", "PROTEIN", "false", "false"]
    # --- ONE reading of U under DNA per run (relational): DNA words containing U, each hashed under all four flag pairs in one
    # request; words of different lengths in one case, so a reading that depends on topology, strandedness or length is mixed
    for w in words("ACGTU", 2 if quick else 3, 1):
        if "U" in w:
            yield ["ureading", w]
    for _ in range(60 if quick else 600):
        ws = []
        for lo, hi in ((1, 5), (6, 20), (21, 600)):
            w = list(randword(r, r.choice(["ACGTU", "ACGTU", "ACGTURYKMSWBDHVN", "ACGTUZ"]), r.randint(lo, hi)))
            w[r.randrange(len(w))] = "U"
            w = "".join(w)
            ws.append(r.choice([w, w, w.lower(), randcase(r, w)]))
        yield ["ureading"] + ws
    # --- rejections: every single ASCII code point as a letter, first / middle / last position, each type
    for o in range(0, 128):
        ch = chr(o)
        for ty in ("DNA", "RNA", "PROTEIN"):
            yield ["form", "AC" + ch + "G", ty, "false", "false"]
            c, d = FLAGS[o % 4]
            yield ["form", ch + "ACG", ty, c, "false" if ty == "PROTEIN" else d]
            yield ["form", "ACG" + ch, ty, d, "false" if ty == "PROTEIN" else c]
            yield ["form", ch, ty, c, "false"]
    for _ in range(60 if quick else 600):        # two invalid letters; invalid letter and invalid type
        a, b2 = chr(r.randrange(0, 128)), chr(r.randrange(0, 128))
        w = list(randword(r, ACGT, r.randint(2, 9))); w[r.randrange(len(w))] = a; w.insert(r.randrange(len(w) + 1), b2)
        c, d = r.choice(FLAGS)
        yield ["form", "".join(w), r.choice(["DNA", "RNA", "PROTEIN", "XNA", "dna"]), c, d]
    for ch in NONASCII:
        for ty in ("DNA", "RNA", "PROTEIN"):
            yield ["form", "AC" + ch + "G", ty, "false", "false"]
            yield ["form", ch, ty, "true", "false"]
            yield ["form", ch + "A", ty, "false", "true" if ty != "PROTEIN" else "false"]
            yield ["form", "MK" + ch, ty, "true", "true" if ty != "PROTEIN" else "false"]
    for ty in ("dna", "", "Protein", "XNA", "DNA ", "rna"):
        for (c, d) in FLAGS:
            yield ["form", "ACGT", ty, c, d]
    for w in ("MKV", "ACGT", "mkv*", "", "*"):
        for c in ("true", "false"):
            yield ["form", w, "PROTEIN", c, "true"]
            yield ["form", w, "PROTEIN", c, "false"]
    # --- random accepted inputs (U and Z under DNA included) and structured inputs
    maxlen = 1200
    n = 400 if quick else 4000
    for _ in range(n):
        ty = r.choice(["DNA", "DNA", "RNA", "PROTEIN"])
        k = loglen(r, 1, maxlen)
        alpha = PROT if ty == "PROTEIN" else ("ACGTRYKMSWBDHVN" + r.choice(["", "", "U", "Z", "UZ"]))
        c, d = r.choice(FLAGS)
        if ty == "PROTEIN": d = "false"
        w = randword(r, alpha, k)
        yield ["form", r.choice([w, w.lower(), randcase(r, w)]), ty, c, d]
    # long inputs (several BLAKE3 chunks; any length-thresholded path): linear to 10^5, circular to 5000 (the judge's arg-min is quadratic)
    for _ in range(12 if quick else 120):
        ty = r.choice(["DNA", "RNA", "PROTEIN"])
        alpha = PROT if ty == "PROTEIN" else "ACGTRYKMSWBDHVN"
        yield ["form", randcase(r, randword(r, alpha, loglen(r, 1200, 20000 if quick else 100000))), ty, "false", "false" if ty == "PROTEIN" else r.choice(["true", "false"])]
        if r.random() < 0.4:
            yield ["form", randword(r, alpha, loglen(r, 1200, 5000)), ty, "true", "false" if ty == "PROTEIN" else r.choice(["true", "false"])]
    for _ in range(200 if quick else 2000):
        fam, w = structured(r, loglen(r, 3, maxlen), r.choice(["ACGT", "ACGT", "AT", "ACGTRYSWKMBDHVN"]))
        ty = r.choice(["DNA", "DNA", "RNA"])
        if ty == "RNA" and r.random() < 0.5: w = w.replace("T", "U")
        if r.random() < 0.3: w = randcase(r, w)
        yield ["form", w, ty, "false", "true"]
        yield ["form", w, ty, "true", "true"]
        if r.random() < 0.3: yield ["form", w, ty, "true", "false"]

TECHNIQUE = "Lean 4 proof (injectivity of the hash model under an injective digest; v1 form; rejections); differential correspondence and exhaustive partition check"
LEVEL_TEXT = ("Theorems (Props/C05): equal hashes imply equal type, topology, strandedness and the same molecule up to rotation/strand, for every "
              "digest function that is injective (hypothesis, recorded) - PARTIAL: except double-stranded DNA containing U, where the clause is "
              "false of the code (kernel-checked witness, known finding C05-dna-u-strand); the value has the published v1 form with a 64-hex-digit digest of the "
              "canonical representative; unknown types, foreign letters and double-stranded proteins give an error. Tie: correspondence of "
              "seqhash.Hash with the model on all cases, and the partition-by-hash = partition-by-brute-force-orbit check on every DNA word to length 9 "
              "under all four flag pairs in the thorough tier (plus alphabets with U, Z, ambiguity codes, RNA with mixed T/U).")
LEVEL_NOTE = "Trusted: Lean kernel; harness + polymodel; BLAKE3 collision-freeness is a hypothesis; Lean BLAKE3 tested against the Go one; transferred to the Booth-loop model through C12 booth_least (model_hash_*). Known finding C05-dna-u-strand: the class predicate is a necessary condition on observed failing pairs (every collision lies in it; not every pair in it collides) and the tag requires correspondence on every word."

HARNESS_BIN = "run-seq"
EXTRACT_BINS = ["extract-seq"]

# the same requests executed 8 at a time in concurrent goroutines (check: PARALLEL / harness: VERIF_PAR)
PARALLEL = {"quick": {"par": 8, "max_cases": 4000}, "thorough": {"par": 8, "max_cases": 40000, "race": True}}
