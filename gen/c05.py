"""C05 — seqhash separates molecules, v1 form, rejections."""
from common import *

RULE = ("form: one Hash call judged against 'v1_' + tag + '_' + hex(BLAKE3(canonical representative)) with the representative computed "
        "from the arg-min spec and the code-set complement; exhaustive over ACGT^<=L x 4 flag pairs, protein strings to length 2..3, every "
        "single invalid letter; partition: Hash of EVERY word of length n over ACGT under each flag pair, partition by hash compared with the "
        "partition by canonical representative; random longer inputs. non-trivial = accepted input of length >= 2; distinct by case text")
EXHAUSTIVE = {"quick": False, "thorough": True}
TRUSTED_BASE = ["collision-freeness of BLAKE3 is a hypothesis (Function.Injective blake) of the separation theorem, not an axiom",
                "Base/Blake3.lean (Lean BLAKE3) is used by the judge and compared with the vendored Go BLAKE3 through the form cases"]
ASSUMPTIONS = ["inputs are ASCII", "BLAKE3 has no collisions among the inputs explored (hypothesis of hash_inj)",
               "hash_inj states the double-stranded case on the strand-closed alphabet (normalised letters among the 15 IUPAC codes: no U under DNA, no Z), "
               "where 'equal up to strand' is an equivalence; hash_inj_general covers every accepted input with the conclusion "
               "'some strand of one equals, up to rotation, some strand of the other'"]
PARTIAL = []
TIMEOUT_MS = 120000

PROT = "ACDEFGHIKLMNPQRSTVWYUO*BXZ"
FLAGS = [("true", "true"), ("true", "false"), ("false", "true"), ("false", "false")]

def cases(seed, tier):
    r = rng(seed, "C05")
    L, LP, NP = (4, 2, 5) if tier == "quick" else (6, 3, 9)
    for w in words(ACGT, L, 0):
        for (c, d) in FLAGS:
            yield ["form", w, "DNA", c, d]
    for w in words(PROT, LP, 1):
        yield ["form", w, "PROTEIN", r.choice(["true", "false"]), "false"]
    for n in range(1, NP + 1):
        for (c, d) in FLAGS:
            yield ["partition", ACGT, str(n), "DNA", c, d]
    yield ["partition", "ACGU", "3", "RNA", "true", "true"]
    yield ["partition", "ACDEFGHIKLMNPQRSTVWY", "2", "PROTEIN", "true", "false"]
    # every single invalid letter, each type
    for o in range(32, 127):
        ch = chr(o)
        for ty in ("DNA", "RNA", "PROTEIN"):
            yield ["form", "AC" + ch + "G", ty, "false", "false"]
    # letters outside ASCII (homoglyphs of valid letters, accented and other scripts): must be rejected too.
    # (U+017F and U+0131 are left out: Unicode upper-casing folds them to the ASCII letters S and I.)
    for ch in ["\u00e9", "\u03a9", "\u0410", "\u0391", "\uff21", "\u00c5", "\u0421", "\u0422", "\u03a4", "\u00df", "\u212a", "\u4e2d", "\U0001d400", "\u00a0", "\u200b"]:
        for ty in ("DNA", "RNA", "PROTEIN"):
            yield ["form", "AC" + ch + "G", ty, "false", "false"]
            yield ["form", ch, ty, "true", "false"]
    for ty in ("dna", "", "Protein", "XNA"):
        yield ["form", "ACGT", ty, "false", "false"]
    for w in ("MKV", "ACGT"):
        for c in ("true", "false"):
            yield ["form", w, "PROTEIN", c, "true"]
    maxlen = 1200
    n = 300 if tier == "quick" else 3000
    for _ in range(n):
        ty = r.choice(["DNA", "DNA", "RNA", "PROTEIN"])
        k = loglen(r, 1, maxlen)
        alpha = PROT if ty == "PROTEIN" else ("ACGTRYKMSWBDHVN" + ("U" if ty == "RNA" else ""))
        c, d = r.choice(FLAGS)
        if ty == "PROTEIN": d = "false"
        yield ["form", randcase(r, randword(r, alpha, k)), ty, c, d]

TECHNIQUE = "Lean 4 proof (injectivity of the hash model under an injective digest; v1 form; rejections); differential correspondence and exhaustive partition check"
LEVEL_TEXT = ("Theorems (Props/C05): equal hashes imply equal type, topology, strandedness and the same molecule up to rotation/strand, for every "
              "digest function that is injective (hypothesis, recorded); the value has the published v1 form with a 64-hex-digit digest of the "
              "canonical representative; unknown types, foreign letters and double-stranded proteins give an error. Tie: correspondence of "
              "seqhash.Hash with the model on all cases, and the partition-by-hash = partition-by-orbit check on every DNA word to length 9 "
              "under all four flag pairs in the thorough tier.")
LEVEL_NOTE = "Trusted: Lean kernel; harness + polymodel; BLAKE3 collision-freeness is a hypothesis; Lean BLAKE3 tested against the Go one; transferred to the Booth-loop model through C12 booth_least (model_hash_*)."

HARNESS_BIN = "run-seq"
EXTRACT_BINS = ["extract-seq"]
