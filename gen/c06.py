"""C06 — Translation implements the NCBI genetic codes codon by codon."""
from common import *

IDS = [1, 2, 3, 4, 5, 6, 9, 10, 11, 12, 13, 14, 16, 21, 22, 23, 24, 25, 26, 27, 28, 29, 30, 31, 33]
B = "TCAG"
CODONS = [x + y + z for x in B for y in B for z in B]

RULE = ("table N for N in 0..40 (the 25 ids and the others: absent, or offered beside NCBI's 25 - reported as class table/extra-id-offered, never judged; the extractor probes 0..255); tr: every id x every one of the 64 codons as its own case "
        "(exhaustive), every id x the 192-letter string of all codons, in upper, lower and mixed case; split: random A/C/G/T strings "
        "(length log-uniform 1..3000, random case) under every id, EVERY codon-boundary split point for lengths up to 300 (quick) / "
        "700 (thorough) and for one string of 900 / 3000 letters, 8 / 24 random split points otherwise; case: random re-casing masks; tail: every partial tail of length 0..2; "
        "lengths around block sizes (255..8194; to 262145 thorough); histories on one table instance (translate / re-weight in place / "
        "swap two entries' letters in place); the same under tables re-weighted (deep copy + OptimizeTable) from random coding sequences and under hand-written "
        "text tables; the two error branches; strings with N/U/gap letters and letters outside ASCII inserted (judged: a codon holding one "
        "gives no residue, frames are counted in letters). Out of domain (correspondence only): tables listing a triplet twice or odd "
        "triplets. Only the 25 x 64 cells (and table ids 0..40) are exhaustive; the string part of the quantifier is SAMPLED (the theorems "
        "close it on the model). Every Translate call is preceded by a throw-away call that ends in a partial codon, so state kept "
        "between calls is exposed. non-trivial = the string holds at least one complete codon; distinct by case text")
EXHAUSTIVE = {"quick": False, "thorough": False}   # of the 25 x 64 cells (and table ids 0..40) only; strings are sampled, see RULE
TRUSTED_BASE = ["Spec/Ncbi.lean: the 25 NCBI genetic codes (standard code, reassignments, start/stop lists) typed by hand from memory, no network; "
                "no copy of gc.prt is pinned in the tree. An independent reviewer wrote the AAs/Starts lines of the 25 codes down from memory "
                "(gc.prt v4.6 / Biopython CodonTable), expanded the spec back into that form and compared it letter by letter with both the spec "
                "and codon.go's strings: no discrepancy (notes/reviews/C06.md). The spec's internal consistency is kernel-checked "
                "(spec_standard_partition, spec_reassignments_consistent, spec_total, spec_starts_stops_consistent, spec_stops_are_star_cells). "
                "NCBI codes 15 and 32 are not offered by the library and are outside the property; an id offered beside the 25 (an alias, a new code) is reported, not judged",
                "strings.ToUpper is modelled by the ASCII mapping; outside ASCII Unicode upper-casing never yields A, C, G or T (the only "
                "non-ASCII letters with an ASCII upper case are dotless i and long s), so for tables over A/C/G/T the two agree on every string",
                "Go map semantics (last write wins, missing key reads as \"\") as modelled by `mapGet`"]
ASSUMPTIONS = ["concatenation law at the split points 0 and n (and tail cases with an empty stem): one piece is the empty string, which the API "
               "rejects today (errEmtpySequenceString); the empty string is outside the quantifier, so the judge reads either that error or an empty result as the empty protein (class tag empty-piece; lemma "
               "translate_empty_piece shows the model does the same; translate_append_api is the law for two non-empty pieces)",
               "A/C/G/T in either case for the one-letter-per-codon clauses (translate_len, translate_map, translate_is_ncbi); the framing, "
               "concatenation, tail and case laws hold for every string (no ASCII hypothesis since /repo 053f18d frames codons by letters)"]
PARTIAL = []
MIN_JUDGED_FRACTION = 0.9

def small_table(r):
    """a hand-written text table: the standard code with shuffled amino-acid order and random weights"""
    aas = "FFLLSSSSYY**CC*WLLLLPPPPHHQQRRRRIIIMTTTTNNKKSSRRVVVVAAAADDEEGGGG"
    d = {}
    for c, a in zip(CODONS, aas):
        d.setdefault(a, []).append(c)
    items = list(d.items())
    r.shuffle(items)
    return "ATG/TAA,TAG,TGA/" + ";".join(a + ":" + ",".join("%s=%d" % (c, r.randrange(0, 50)) for c in cs) for a, cs in items)

def cases(seed, tier):
    r = rng(seed, "C06")
    thorough = tier == "thorough"
    # --- the tables themselves
    for n in range(-1, 41):
        if n >= 0:
            yield ["table", str(n)]
    # --- exhaustive: 25 ids x 64 codons, one case each (the smallest replay names table and codon)
    for i in IDS:
        for c in CODONS:
            yield ["tr", "id:%d" % i, c]
    allc = "".join(CODONS)
    for i in IDS:
        yield ["tr", "id:%d" % i, allc]
        yield ["tr", "id:%d" % i, allc.lower()]
        yield ["case", "id:%d" % i, allc, randword(r, "ul", 7)]
    # --- error branches
    yield ["tr", "id:1", ""]
    yield ["tr", "txt://", "ATG"]
    yield ["tr", "txt://", ""]
    yield ["split", "id:11", "ATG", "all"]
    # --- random strings x all ids x split points
    nper = 5 if not thorough else 30
    allmax = 300 if not thorough else 700
    for i in IDS:
        for _ in range(nper):
            k = loglen(r, 1, 3000)
            s = randcase(r, randword(r, ACGT, k))
            if k <= allmax:
                yield ["split", "id:%d" % i, s, "all"]
            else:
                yield ["split", "id:%d" % i, s, ",".join(str(r.randrange(0, k // 3 + 1)) for _ in range(8 if not thorough else 24))]
            yield ["case", "id:%d" % i, s, randword(r, "ul", r.randint(1, 9))]
            for t in ["", "A", "g", "AC", "tG"]:
                yield ["tail", "id:%d" % i, s, t]
        # short strings: every length 1..8
        for k in range(1, 9):
            yield ["split", "id:%d" % i, randcase(r, randword(r, ACGT, k)), "all"]
    # one long case per run with every split point
    s = randcase(r, randword(r, ACGT, 3000 if thorough else 900))
    yield ["split", "id:%d" % r.choice(IDS), s, "all"]
    # --- lengths around typical block sizes (a windowed / chunked implementation must keep the frame across blocks)
    edges = [255, 256, 257, 511, 512, 513] + list(range(1021, 1031)) + list(range(2045, 2053)) + [3071, 3072, 3073] + \
            list(range(4093, 4100)) + [8190, 8191, 8192, 8193, 8194]
    if thorough:
        edges += [16383, 16384, 16385, 16386, 32767, 32768, 32769, 65535, 65536, 65537, 65538, 100000, 262145]
    for L in edges:
        s = randcase(r, randword(r, ACGT, L))
        ks = sorted(set(k for k in [0, 1, 85, 86, 170, 171, 341, 342, 682, 683, 1365, 1366, L // 6, L // 3 - 1, L // 3] if 0 <= k <= L // 3))
        yield ["split", "id:%d" % r.choice(IDS), s, ",".join(map(str, ks))]
        yield ["case", "id:%d" % r.choice(IDS), s, randword(r, "ul", 3)]
    # --- ONE-CASE strings with a short island of the other case (1..8 letters) at the start, at the end, inside the last
    # 8 / 16 bytes or anywhere, for lengths on and off multiples of 8 / 16 / 64: a fast path that decides "already upper-case"
    # by scanning blocks and mis-handles the last block (seeded change C06-m) drops the residues of the island's codons;
    # letter-by-letter random case and periodic masks never produce such a string
    for L in [64, 72, 80, 96, 104, 120, 128, 192, 256, 512, 1024, 63, 65, 66, 69, 75, 100, 129, 24, 48, 3, 9] + [8 * r.randint(8, 200) for _ in range(6)]:
        for pos in (0, L - 1, L - 3, L - 8, max(0, L - r.randint(1, 16)), r.randrange(L)):
            w = randword(r, ACGT, L)
            k = r.randint(1, 8)
            a = max(0, min(L - 1, pos))
            isl = w[:a] + w[a:a + k].lower() + w[a + k:]
            if r.random() < 0.3:
                isl = isl.swapcase()
            yield ["split", "id:%d" % r.choice(IDS), isl, "0,%d" % (L // 6)]
    # --- histories on one private table instance (re-weighted / re-lettered in place between translations)
    for _ in range(12 if not thorough else 150):
        steps = []
        for _ in range(r.randint(3, 9)):
            kind = r.choice("TTTWS")
            if kind == "T":
                steps.append("T:" + randcase(r, randword(r, ACGT, loglen(r, 1, 400))))
            elif kind == "W":
                steps.append("W:" + randword(r, ACGT, 3 * r.randint(1, 60)))
            else:
                steps.append("S:%d,%d" % (r.randrange(0, 64), r.randrange(0, 64)))
        steps.append("T:" + "".join(CODONS))
        yield ["hist", r.choice(["id:%d" % r.choice(IDS), "txt:" + small_table(r)])] + steps
    # --- tables without start / stop lists (Translate only looks at the amino acids)
    nostart = small_table(r).replace("ATG/TAA,TAG,TGA/", "//")
    yield ["split", "txt:" + nostart, "atgGCTtaaGG", "all"]
    yield ["tr", "txt:" + nostart.replace("//", "/TAA/"), "".join(CODONS)]
    yield ["tr", "txt:" + nostart.replace("//", "ATG//"), "".join(CODONS)]
    # --- re-weighted tables (deep copy + OptimizeTable in the harness) and text tables
    for _ in range(30 if not thorough else 300):
        i = r.choice(IDS)
        cds = randword(r, ACGT, 3 * r.randint(1, 200))
        s = randcase(r, randword(r, ACGT, loglen(r, 1, 1000)))
        yield ["split", "rw:%d:%s" % (i, cds), s, ",".join(str(r.randrange(0, len(s) // 3 + 1)) for _ in range(4))]
        yield ["case", "rw:%d:%s" % (i, cds), s, randword(r, "ul", 5)]
    for _ in range(30 if not thorough else 300):
        tt = small_table(r)
        s = randcase(r, randword(r, ACGT, loglen(r, 1, 500)))
        yield ["split", "txt:" + tt, s, "all" if len(s) <= 200 else "0,1,2"]
        yield ["tail", "txt:" + tt, s, r.choice(["", "a", "CG"])]
    # --- letters other than A/C/G/T, inside and outside ASCII: judged (a codon holding one gives no residue; framing by letters)
    for _ in range(12 if not thorough else 80):
        i = r.choice(IDS)
        s = list(randcase(r, randword(r, ACGT, loglen(r, 3, 300))))
        for _ in range(r.randint(1, 4)):
            s.insert(r.randrange(0, len(s) + 1), r.choice(["N", "n", "U", "-", " ", "R", "é", "中", "\U0001F600", "ı", "ſ", "É", "Ａ"]))
        s = "".join(s)
        yield ["split", "id:%d" % i, s, "all" if len(s) <= 120 else "0,1,2,3"]
        yield ["case", "id:%d" % i, s, randword(r, "ul", 4)]
        yield ["tail", "id:%d" % i, s, r.choice(["", "é", "Aé", "N"])]
    # --- tables that are not well formed: correspondence only (not judged)
    dup = "ATG/TAA/X:AAA=1,AAC=2;Y:AAA=3;Z:aaa=1,AA=1,AAAA=1;:CCC=1;LONG:GGG=1"
    for s in ["AAAAACAAGGGGCCC", "aaaAAAA", "ATGNNNTAA", "AUGUUU", "ATG-TAA", "ATG TAA", "ATGRYK", "NNN", "ATGTAAX"]:
        yield ["tr", "id:1", s]
        yield ["tr", "txt:" + dup, s]
        yield ["split", "txt:" + dup, s, "all"]
    for s in ["ATéGATG", "é", "Aé", "ATG中ATG", "éééATG", "A\U0001F600TG"]:
        yield ["tr", "id:1", s]
    for _ in range(10 if not thorough else 80):
        s = randcase(r, randword(r, "ACGTNU-R", loglen(r, 1, 200)))
        yield ["tr", "id:%d" % r.choice(IDS), s]
        yield ["tr", "txt:" + dup, s]
    yield ["tr", "id:7", "ATG"]
    yield ["tr", "id:0", "ATG"]

TECHNIQUE = ("Lean 4 proof: decide on the regenerated tables against an independently shaped NCBI spec (25 x 64 cells, start and stop "
             "lists), induction over strings for the frame / concatenation / case laws; differential correspondence of Translate")
LEVEL_TEXT = ("Spec self-consistency (standard code partitions the 64 codons, no repeated or no-op reassignment, stops = '*' cells except "
              "codes 27/28/31) is kernel-checked. Table clauses: ids_complete (every one of the 25 NCBI ids is offered; extra ids are reported, not judged), codon_by_codon (all 1600 cells: NCBI's residue = what the compiled Translate returned = what the "
              "model reads from the regenerated table), starts_eq, stops_eq, triplets_partition are decided by the kernel on tables "
              "re-extracted from the compiled code on every run. String clauses are theorems for every table and every string of any "
              "length and any letters (codons are framed by letters): translate_chunks, translate_append, translate_tail, translate_case (+ upper/lower corollary), translate_foreign_codon (a codon holding a non-A/C/G/T letter gives no residue), translate_append_api / translate_empty_piece (the law at the API), translate_len and "
              "translate_map (one letter per codon, for every table satisfying the weight-free partition predicate; reweight_wf shows "
              "re-weighting preserves it), translate_is_ncbi (the model's translation under a default table is NCBI's, any length), and the "
              "two error branches. The loop model (rune loop, 3-letter window, upper-casing, last-write-wins map, missing key = \"\") is tied "
              "to codon.Translate by correspondence on every case, including foreign letters, letters outside ASCII and tables that list a "
              "triplet twice; every real output is also judged against the NCBI spec directly.")
LEVEL_NOTE = ("Trusted: Lean kernel; extractor and harness; the hand-typed NCBI spec (it agrees with the code's differently shaped encoding on "
              "all 1600 cells and all start/stop lists); ASCII modelling of strings.ToUpper.")

HARNESS_BIN = "run-codon"
EXTRACT_BINS = ["extract-codon"]

# the same requests executed 8 at a time in concurrent goroutines (check: PARALLEL / harness: VERIF_PAR)
PARALLEL = {"quick": {"par": 8, "max_cases": 4000}, "thorough": {"par": 8, "max_cases": 40000, "race": True}}
