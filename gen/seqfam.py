"""Structured nucleotide-sequence families shared by the C04 / C05 generators: inputs on which the strand
choice and the least rotation are NOT decided within the first few letters (reverse-palindromes, near
palindromes with the single difference near the middle or near an end, odd length with a centre letter that
is / is not self-complementary, periodic words, letterwise self-complementary ambiguity words, and rotations
of all of these)."""
COMP = dict(zip("ACGTRYSWKMBDHVN", "TGCAYRSWMKVHDBN"))

def rc(s):
    """reverse complement of an upper-case word over the 15 IUPAC codes"""
    return "".join(COMP[c] for c in reversed(s))

def _word(r, alpha, n):
    return "".join(r.choice(alpha) for _ in range(n))

def _mutate(r, s, pos, alpha):
    pos = max(0, min(len(s) - 1, pos))
    c = r.choice([a for a in alpha if a != s[pos]])
    return s[:pos] + c + s[pos + 1:]

def structured(r, n, alpha="ACGT"):
    """one (family, word) of length about n (n >= 2)"""
    h = max(1, n // 2)
    fam = r.choice(["pal", "odd-centre", "odd-selfcentre", "near-mid", "near-end", "near-start", "power", "power-near",
                    "AkCAkT", "selfcomp", "pal-rot", "near-mid-rot"])
    x = _word(r, alpha, h)
    if fam == "pal":
        w = x + rc(x)
    elif fam == "odd-centre":
        w = x + r.choice("ACGT") + rc(x)            # centre not self-complementary: strands differ ONLY there
    elif fam == "odd-selfcentre":
        w = x + r.choice("SWN") + rc(x)             # centre self-complementary: an exact odd reverse-palindrome
    elif fam == "near-mid":
        w = _mutate(r, x + rc(x), h + r.randint(-3, 3), alpha)
    elif fam == "near-end":
        w = _mutate(r, x + rc(x), 2 * h - 1 - r.randint(0, 3), alpha)
    elif fam == "near-start":
        w = _mutate(r, x + rc(x), r.randint(0, 3), alpha)
    elif fam == "power":
        u = _word(r, alpha, r.randint(1, 7)); w = (u * (n // len(u) + 1))[:max(2, n)]
    elif fam == "power-near":
        u = _word(r, alpha, r.randint(1, 7)); w = (u * (n // len(u) + 1))[:max(2, n)]
        w = _mutate(r, w, r.randrange(len(w)), alpha)
    elif fam == "AkCAkT":
        k = max(1, (n - 2) // 2); w = "A" * k + "C" + "A" * k + "T"
    elif fam == "selfcomp":
        y = _word(r, "SWN", h); w = y + y[::-1] if r.random() < 0.5 else y + r.choice("SWN") + y[::-1]
    elif fam == "pal-rot":
        w = x + rc(x); k = r.randrange(len(w)); w = w[k:] + w[:k]
    else:
        w = _mutate(r, x + rc(x), h + r.randint(-2, 2), alpha); k = r.randrange(len(w)); w = w[k:] + w[:k]
    return fam, w
