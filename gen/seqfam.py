"""Structured nucleotide-sequence families shared by the C04 / C05 generators: inputs on which the strand
choice and the least rotation are NOT decided within the first few letters (reverse-palindromes, near
palindromes with the single difference near the middle or near an end, odd length with a centre letter that
is / is not self-complementary, periodic words, letterwise self-complementary ambiguity words, and rotations
of all of these)."""
COMP = dict(zip("ACGTRYSWKMBDHVN", "TGCAYRSWMKVHDBN"))

def rc(s):
    """reverse complement of an upper-case word over the 15 IUPAC codes"""
    return "".join(COMP[c] for c in reversed(s))

def _word(r, alpha, n):
    return "".join(r.choice(alpha) for _ in range(n))

def _mutate(r, s, pos, alpha):
    pos = max(0, min(len(s) - 1, pos))
    c = r.choice([a for a in alpha if a != s[pos]])
    return s[:pos] + c + s[pos + 1:]

def structured(r, n, alpha="ACGT"):
    """one (family, word) of length about n (n >= 2)"""
    h = max(1, n // 2)
    fam = r.choice(["pal", "odd-centre", "odd-selfcentre", "near-mid", "near-end", "near-start", "power", "power-near",
                    "AkCAkT", "selfcomp", "pal-rot", "near-mid-rot"])
    x = _word(r, alpha, h)
    if fam == "pal":
        w = x + rc(x)
    elif fam == "odd-centre":
        w = x + r.choice("ACGT") + rc(x)            # centre not self-complementary: strands differ ONLY there
    elif fam == "odd-selfcentre":
        w = x + r.choice("SWN") + rc(x)             # centre self-complementary: an exact odd reverse-palindrome
    elif fam == "near-mid":
        w = _mutate(r, x + rc(x), h + r.randint(-3, 3), alpha)
    elif fam == "near-end":
        w = _mutate(r, x + rc(x), 2 * h - 1 - r.randint(0, 3), alpha)
    elif fam == "near-start":
        w = _mutate(r, x + rc(x), r.randint(0, 3), alpha)
    elif fam == "power":
        u = _word(r, alpha, r.randint(1, 7)); w = (u * (n // len(u) + 1))[:max(2, n)]
    elif fam == "power-near":
        u = _word(r, alpha, r.randint(1, 7)); w = (u * (n // len(u) + 1))[:max(2, n)]
        w = _mutate(r, w, r.randrange(len(w)), alpha)
    elif fam == "AkCAkT":
        k = max(1, (n - 2) // 2); w = "A" * k + "C" + "A" * k + "T"
    elif fam == "selfcomp":
        y = _word(r, "SWN", h); w = y + y[::-1] if r.random() < 0.5 else y + r.choice("SWN") + y[::-1]
    elif fam == "pal-rot":
        w = x + rc(x); k = r.randrange(len(w)); w = w[k:] + w[:k]
    else:
        w = _mutate(r, x + rc(x), h + r.randint(-2, 2), alpha); k = r.randrange(len(w)); w = w[k:] + w[:k]
    return fam, w


def long_tie(r, tie, alpha="ACGT"):
    """one (family, word): the strand choice or the least-rotation choice is tied on about `tie` letters and decided only
    after them (so a comparison limited to a prefix / a chunk of up to `tie` letters takes the wrong decision)."""
    fam = r.choice(["strand-tie-centre", "strand-tie-mid", "strand-tie-rot", "rot-tie", "rot-tie-3", "period-long",
                    "period-short-late", "period-long-late"])
    if fam == "strand-tie-centre":       # s and rc s agree on `tie` letters, differ at the (not self-complementary) centre
        x = _word(r, alpha, tie); w = x + r.choice("ACGT") + rc(x)
    elif fam == "strand-tie-mid":        # …differ inside a short non-palindromic middle piece
        x = _word(r, alpha, tie); y = _word(r, "ACGT", r.randint(2, 9))
        if y == rc(y): y = "AC" + y
        w = x + y + rc(x)
    elif fam == "strand-tie-rot":        # the same, started somewhere else (circular: the two strands' least rotations tie)
        x = _word(r, alpha, tie); w = x + r.choice("ACGT") + rc(x); k = r.randrange(len(w)); w = w[k:] + w[:k]
    elif fam == "rot-tie":               # exactly two rotations start with AA; they agree on `tie` letters, then C < G decides
        p = "AA" + _word(r, "CGT", max(1, tie - 2)); w = p + "G" + p + "C"
    elif fam == "rot-tie-3":             # three candidates, the decision between the best two comes after 2*tie letters
        p = "AA" + _word(r, "CGT", max(1, tie // 2 - 2)); w = p + "T" + p + "G" + p + "T" + p + "C"
    elif fam == "period-long":           # a power of a long word: the rotations by one period are identical
        p = _word(r, alpha, tie); w = p * r.choice([2, 3])
    elif fam == "period-short-late":     # a power of a short word with ONE change far from the start
        u = _word(r, alpha, r.randint(1, 9)); w = (u * (2 * tie // len(u) + 2))[:2 * tie + 1]
        w = _mutate(r, w, tie + r.randrange(tie), alpha)
    else:                                # a square of a long word with one change late in the second copy
        p = _word(r, alpha, tie); w = p + p; w = _mutate(r, w, tie + tie // 2 + r.randrange(max(1, tie // 2)), alpha)
    k = r.randrange(len(w))
    return fam, w, k
