"""C08 — codon usage tables count exactly and never leak between calls."""
from common import *
import struct, itertools

ALL_IDS = [1, 2, 3, 4, 5, 6, 9, 10, 11, 12, 13, 14, 16, 21, 22, 23, 24, 25, 26, 27, 28, 29, 30, 31, 33]

RULE = ("hist: histories of table operations (request default i / re-weight handle with s / add / compromise / "
        "serialise+parse / observe), every step's result compared; serialise+parse goes through WriteCodonJSON + ReadCodonJSON on "
        "one path per source handle, rewritten only when the handle's content changed, otherwise READ AGAIN. First case: every default id requested once, untouched "
        "(fresh-process check of weight 1 + regenerated assignment; every case also reports and judges the start tables it "
        "names). Exhaustive to length L over ids {1,2,11}, three coding sequences (one with all 64 codons) and one cut-off; "
        "random histories to length 8 over random ids (40 % with same-code neighbours 1/11, 27/28, 1/4; half generated linear, "
        "half unconstrained); two-step histories re-weighting a default table from coding sequences of length 0..10^5 (any "
        "case, non-ACGT ASCII incl. digits / blanks / line breaks, non-ASCII letters of 2-4 bytes); 50 000..100 000-letter "
        "sequences with non-ASCII letters at / across byte offsets 4096k, 16384k, 49152, 65536; wide-alphabet sequences of "
        "1000..5000 letters. conc: 2-4 writer goroutines re-weighting different default tables plus 0-2 reader goroutines "
        "(GetCodonTable + AddCodonTable n times on ids no writer touches); the same cases under the race detector (quick: "
        "once; thorough: GOMAXPROCS 1/2/16 x 20) together with two harness-level control cases that MUST come back as `race`. "
        "non-trivial = history with at least one re-weighting; distinct by case text")
EXHAUSTIVE = {"quick": True, "thorough": True}   # quick: all histories to length 3; thorough: to length 4
SHARDS = {"quick": 4, "thorough": 16}            # cases are self-contained (start tables snapshotted / restored and reported per case)
TRUSTED_BASE = ["harness: the first time a C08 op names a default id in a process it snapshots GetCodonTable(id) before anything "
                "re-weights it; later cases restore that snapshot through the aliased slices; it never writes a weight of its own. "
                "Every start table is reported (F = fresh, R = restored) and judged by the Lean side against the regenerated tables",
                "encoding/json round trip of a Table is the identity on values (checked by correspondence only)",
                "Go memory model / scheduler: the heap model's steps are atomic; data races are looked for with -race only "
                "(control cases assert that the race runs are functional)",
                "strings.ToUpper is modelled on ASCII only (see ASSUMPTIONS); range-over-string = one model Char per rune"]
ASSUMPTIONS = ["coding sequences are valid Unicode text (any characters: letters of either case, digits, blanks, line breaks, "
               "punctuation, non-ASCII letters); invalid UTF-8 cannot be sent over the line protocol and is not exercised",
               "strings.ToUpper outside ASCII: the model upper-cases ASCII only (Char.toUpper). Assumed of Go's function: it maps "
               "rune by rune (keeps the number of letters, so the frame) and maps no non-ASCII letter to A, C, G or T (U+0131 and "
               "U+017F go to I and S, nothing goes to ACGT); then every table over ACGT triplets gets the same weights under both",
               "weights and their sums stay below 2^53 (sequences of at most 10^5 letters)",
               "int(NaN) is platform-defined in Go: the result of a compromise with an amino acid of total weight 0, and what is "
               "added / compromised / serialised / observed from it, is compared up to the code of the table only (taint tracked "
               "per handle and per cell; class suffix /nan); every other step of the same history is compared exactly",
               "outside the property (drift only, class suffix /ood, taint level 2 tracked per handle and per cell): the table "
               "returned for an id that is not one of the 25 NCBI ids; add / compromise of tables that are not non-empty, "
               "well-formed and over the same code (C18's domain); everything computed from such a table, including its "
               "re-weighting. Steps on untainted handles of the same history are judged exactly",
               "add / compromise steps inside a history are judged for SHARING only: the value-semantics spec uses the model's "
               "addTable / compromise (their own spec is C18); a wrong sum inside a history shows as a correspondence DIFF"]
PARTIAL = ["'a freshly requested default table always carries the pristine NCBI assignments with uniform weight 1' and "
           "'unaffected by earlier re-weightings' are FALSE of the code on non-linear histories (known findings "
           "C08-alias-default and C08-receiver-mutated, kernel-checked counterexamples alias_witness, stale_witness, "
           "receiver_witness); history_refines_partial proves them for Linear histories only. In a FRESH process the clause about "
           "default tables is judged on every first use of an id (start table reported before anything re-weights it) and "
           "pinned by the theorem defaults_uniform on the regenerated tables",
           "'concurrent': disjoint_commute proves every interleaving of atomic re-weighting steps gives the same result; "
           "the absence of data races under the Go memory model is tested with the race detector, not proved"]
NEEDS_RACE = True
NEEDS_RACE_QUICK = True
TIMEOUT_MS = 30000


def bits(x):
    return str(struct.unpack("<Q", struct.pack("<d", x))[0])

ALL64 = "".join("".join(p) for p in itertools.product("TCAG", repeat=3))
# first string: every codon once plus a few (every amino acid of every code occurs, so compromise has no 0/0), mixed case, length % 3 = 2
S3 = [ALL64[:90] + ALL64[90:].lower() + "ATGatgGCTgc", "gctGCATAAat", "ATGNNKgcC"]
CUTS = [0.0, 0.1, 0.25, 0.5, 1.0, 1.5, -0.5, 0.0001, 0.3333]


def steps_at(i, ids, strings, cuts):
    """all operation tokens possible when i handles exist"""
    for d in ids:
        yield "g:%d" % d
    for h in range(i):
        for s in strings:
            yield "w:%d:%s" % (h, s)
    for h1 in range(i):
        for h2 in range(i):
            yield "a:%d:%d" % (h1, h2)
    for h1 in range(i):
        for h2 in range(i):
            for c in cuts:
                yield "c:%d:%d:%s" % (h1, h2, bits(c))
    for h in range(i):
        yield "j:%d" % h
    for h in range(i):
        yield "o:%d" % h


def all_histories(n, ids, strings, cuts, prefix=()):
    if len(prefix) == n:
        yield list(prefix)
        return
    for t in steps_at(len(prefix), ids, strings, cuts):
        yield from all_histories(n, ids, strings, cuts, prefix + (t,))


def randseq(r, n, exotic):
    if exotic:
        alpha = "ACGT" * 8 + "NRYKMSWBDHVU" + "XZ-*." + "acgtn" + " \n\r\t0123456789>;=/" + "\u00e9\u00c9\u65e5\u0131\u017f\u03a9\U0001d538"
    else:
        alpha = "ACGT"
    return randcase(r, randword(r, alpha, n)) if r.random() < 0.6 else randword(r, alpha, n)


class Lin:
    """mirror of Spec.ValueTables.lstep, used only to steer the generator towards linear histories"""
    def __init__(self, ids):
        self.ids, self.regions, self.next, self.owner = ids, [], len(ids), {}
    def readable(self, k):
        r = self.regions[k]
        return self.owner.get(r, k) == k
    def fresh(self):
        self.regions.append(self.next); self.next += 1
    def gettable(self, d):
        return d not in self.ids or self.ids.index(d) not in self.owner


def random_history(r, ids, n, linear):
    lin = Lin(ids)
    toks = []
    for _ in range(n):
        i = len(toks)
        for _try in range(50):
            k = r.choice("ggwwwacjo") if i else "g"
            if k == "g":
                d = r.choice(ids) if r.random() < 0.95 else 7
                if linear and not lin.gettable(d):
                    continue
                toks.append("g:%d" % d)
                if d in ids: lin.regions.append(ids.index(d))
                else: lin.fresh()
                break
            if k == "w":
                h = r.randrange(i)
                if r.random() < 0.25:
                    s = coding(r, 192 + r.choice([0, 1, 2, 30]), False)
                    s = ALL64 + s if r.random() < 0.7 else s
                else:
                    s = randseq(r, r.choice([0, 1, 2, 3, 4, 5, 6, 9, 12, 30, 31, 60]), r.random() < 0.4)
                toks.append("w:%d:%s" % (h, s))
                reg = lin.regions[h]
                lin.regions.append(reg); lin.owner[reg] = i
                break
            if k in "ac":
                h1, h2 = r.randrange(i), r.randrange(i)
                if linear and not (lin.readable(h1) and lin.readable(h2)):
                    continue
                toks.append("a:%d:%d" % (h1, h2) if k == "a" else "c:%d:%d:%s" % (h1, h2, bits(r.choice(CUTS))))
                lin.fresh()
                break
            h = r.randrange(i)
            if linear and not lin.readable(h):
                continue
            toks.append("%s:%d" % (k, h))
            lin.fresh()
            break
        else:
            toks.append("g:7"); lin.fresh()
    return toks


def coding(r, n, exotic):
    """coding-like sequence of n letters: codons drawn with a skewed distribution, optional exotic letters, random case"""
    cods = ["".join(p) for p in itertools.product("TCAG", repeat=3)]
    w = [r.random() ** 3 for _ in cods]
    body = "".join(r.choices(cods, weights=w, k=n // 3 + 1))[:n]
    if exotic:
        b = list(body)
        for _ in range(max(1, n // 50)):
            if b:
                b[r.randrange(len(b))] = r.choice("NRYKMSWXU-nx 0\n")
        body = "".join(b)
    mode = r.random()
    if mode < 0.3: return body
    if mode < 0.5: return body.lower()
    return randcase(r, body)


NONASCII = ["\u00e9", "\u00c9", "\u65e5", "\u03a9", "\U0001d538", "\u0131"]   # 2, 2, 3, 2, 4, 2 bytes in UTF-8


def long_nonascii(r, n):
    """n letters of coding sequence (ACGT, random case) with a handful of non-ASCII letters: one early, the others just
    before / across BYTE offsets that are multiples of 4096, 16384, 49152, 65536 (block sizes an implementation might
    process the text in), and a few at random positions"""
    b = list(coding(r, n, False))
    def put(i, ch):
        if 0 <= i < len(b) and b[i] in "ACGTacgt":
            b[i] = ch
            return len(ch.encode()) - 1
        return 0
    extra = put(r.randrange(0, 1000), r.choice(NONASCII))
    marks = sorted(set([4096 * r.randint(1, 20), 16384 * r.randint(1, 5), 16384, 49152, 65536, 98304]))
    for B in marks:
        ch = r.choice(NONASCII)
        i = B - extra - r.randint(1, len(ch.encode()))     # ends at, or straddles, byte offset B
        if i < len(b) - 3 and r.random() < 0.8:
            extra += put(i, ch)
    for _ in range(r.randint(0, 3)):
        put(r.randrange(len(b)), r.choice(NONASCII))      # (byte offsets of later marks are then only approximate)
    return "".join(b)


def conc_cases(r, n):
    """writers on different default ids (same-code neighbours 1/11, 27/28 on purpose), plus readers of further ids"""
    for i in range(n):
        k = r.choice([2, 2, 3, 4])
        ids = r.sample(ALL_IDS, k + 2)
        if i % 3 == 0:
            ids[:2] = r.choice([[1, 11], [11, 1], [27, 28]])
            ids = list(dict.fromkeys(ids))
            while len(ids) < k + 2:
                d = r.choice(ALL_IDS)
                if d not in ids: ids.append(d)
        nread = r.choice([0, 1, 2])
        ths = ["%d:%s" % (d, ",".join(coding(r, r.choice([9, 30, 300, 3000]), False) for _ in range(r.randint(1, 4)))) for d in ids[:k]]
        ths += ["%d:@%d" % (d, r.choice([1, 5, 50])) for d in ids[k:k + nread]]
        r.shuffle(ths)
        yield ["conc"] + ths


def cases(seed, tier):
    r = rng(seed, "C08")
    # every default table (and a missing id) requested once, untouched: "a freshly requested default table is pristine"
    yield ["hist", ",".join(map(str, ALL_IDS))] + ["g:%d" % d for d in ALL_IDS] + ["g:7", "g:0"]
    ids3 = [1, 2, 11]
    L = 3 if tier == "quick" else 4
    for n in range(1, L + 1):
        for h in all_histories(n, ids3, S3, [0.1]):
            yield ["hist", "1,2,11"] + h
    if tier == "quick":
        # a sample of the length-4 histories
        lvl4 = 2000
        for _ in range(lvl4):
            h = []
            for i in range(4):
                h.append(r.choice(list(steps_at(i, ids3, S3, [0.1]))))
            yield ["hist", "1,2,11"] + h
    nrand = 3000 if tier == "quick" else 12000
    for k in range(nrand):
        ids = r.sample(ALL_IDS, 3)
        if r.random() < 0.4:
            ids[:2] = r.choice([[1, 11], [11, 1], [27, 28], [28, 27], [1, 4]])   # identical-code neighbours built from separate Go maps
            ids = list(dict.fromkeys(ids))
        n = r.randint(2, 8)
        yield ["hist", ",".join(map(str, ids))] + random_history(r, ids, n, linear=(k % 2 == 0))
    # serialise / parse through the FILE entry points: one path read several times (the harness rewrites handle h's file only
    # when the handle's content changed), by several result handles, with in-place re-weightings of earlier results in between
    for d in (r.sample(ALL_IDS, 3) if tier == "quick" else ALL_IDS):
        s1, s2 = coding(r, 30, False), coding(r, 31, True)
        g = "g:%d" % d
        yield ["hist", str(d), g, "j:0", "w:1:" + s1, "j:0", "o:1", "o:3"]                  # read, re-weight the result, read again
        yield ["hist", str(d), g, "j:0", "j:0", "w:1:" + s1, "o:2", "j:0", "w:2:" + s2, "o:5"]  # two readers of one path
        yield ["hist", str(d), g, "w:0:" + s1, "j:1", "w:2:" + s2, "j:1", "j:3", "a:3:5"]       # file of a re-weighted table
        yield ["hist", str(d), g, "j:0", "w:0:" + s1, "j:0", "j:1", "w:4:" + s2, "j:1"]         # (not Linear: rewritten file)
    # exact counting: g, w with coding sequences of many lengths
    lens = list(range(0, 14)) + [29, 30, 31, 100, 299, 1000, 1001, 4999]
    lens += ([20000, 100000, 99998] if tier == "quick" else [20000, 50001, 99999, 100000, 99998, 100000])
    reps = 1 if tier == "quick" else 6
    for _ in range(reps):
        for n in lens:
            d = r.choice(ALL_IDS)
            yield ["hist", str(d), "g:%d" % d, "w:0:%s" % coding(r, n, r.random() < 0.5)]
    # 50 000 .. 100 000 letters WITH non-ASCII letters (lengths in every residue mod 3), also re-weighted twice
    for k in range(4 if tier == "quick" else 24):
        d = r.choice(ALL_IDS)
        n = r.choice([50000, 65537, 99998, 99999, 100000, r.randint(50000, 100000)])
        yield ["hist", str(d), "g:%d" % d, "w:0:%s" % long_nonascii(r, n)] + (["w:1:%s" % long_nonascii(r, 60001), "o:2"] if k % 2 else [])
    # long sequences over a wide alphabet (many distinct non-codon triplets), two re-weightings in a row
    for _ in range(3 if tier == "quick" else 20):
        d = r.choice(ALL_IDS)
        yield ["hist", str(d), "g:%d" % d, "w:0:%s" % randseq(r, r.randint(1000, 5000), True),
               "w:1:%s" % coding(r, r.randint(1, 3000), True), "o:2"]
    # non-ASCII letters (1 to 4 bytes each) in every frame position: framed by letters since /repo 053f18d
    for w in ["A\u00e9ATGATG", "ATG\u65e5ATGATG", "atg\u00fcGCTgct", "ATGATG\u00e9", "\U0001d538\U0001d538ATGgct", "\u0131TG\u017fTGATG",
              "\u00e9" * 7 + "ATG", "AT\u00e9GATGAT" * 50]:
        for d in (1, 11):
            yield ["hist", str(d), "g:%d" % d, "w:0:" + w, "w:1:" + w[::-1]]
    yield from conc_cases(r, 20 if tier == "quick" else 100)


def extra_runs(seed, tier, case_lines):
    conc = [l for l in case_lines if l.startswith("conc\t")]
    # control of the race runs themselves: two harness goroutines write one variable unsynchronised (independent of what
    # poly does about sharing); it MUST come back as `race`
    controls = ["racectl\t1", "racectl\t2"]
    if tier != "thorough":
        # quick: every concurrent case once under the race detector (a data race kills the process: reply `race`)
        yield ("race-quick", conc + controls, {"GOMAXPROCS": "4"}, True)
        return
    for procs in ("1", "2", "16"):
        env = {"GOMAXPROCS": procs}
        # >= 20 repetitions of the concurrent cases, different ids (in the property) ...
        yield ("race-p" + procs, (conc * 20)[:2000] + controls, env, True)
    for procs in ("1", "2", "16"):
        yield ("procs-p" + procs, conc * 5, {"GOMAXPROCS": procs}, False)


TECHNIQUE = ("Lean 4 refinement proof: heap model (explicit cell sharing) vs value-semantics spec over histories of any "
             "length; kernel-checked counterexample for the known aliasing defect; differential correspondence on histories, "
             "checked after every step; race detector for concurrent re-weighting")
LEVEL_TEXT = ("frequency_exact / frequency_frames (any length, ANY letters incl. non-ASCII, any frame; no hypothesis), "
              "reweight_exact, reweight_keeps_code, history_refines_partial (every Linear history of any length: heap semantics "
              "= value semantics at every step), linear_get_pristine + defaults_uniform (a default table requested on a Linear "
              "history is the regenerated one with weight 1), disjoint_commute / interleavings_agree / thread_result_independent "
              "(all interleavings of re-weightings of different tables) are kernel-checked theorems; alias_witness, stale_witness, "
              "receiver_witness(_steps) are the kernel-checked counterexamples showing the unrestricted statement is false of the "
              "model, and the model is tied to the code on every history, linear or not (heap model must agree everywhere; value "
              "semantics is the judge; a failure is a known finding only if it is exactly the heap model's).")
LEVEL_NOTE = ("Trusted: Lean kernel; harness snapshot / restore + reported start tables; json round trip as identity; Go memory "
              "model (race detector only); strings.ToUpper outside ASCII (rune-wise, nothing maps to A/C/G/T).")

HARNESS_BIN = "run-codon"
EXTRACT_BINS = ["extract-codon"]
