"""C10 — Type IIS digestion: enzyme geometry, independence of the stored origin."""
from common import *

RULE = ("designed layouts: an enzyme (BsaI / BbsI / BtgZI, each through CutWithEnzymeByName AND CutWithEnzyme, or a custom "
        "non-palindromic site of 4..12 letters, skip 0..30, overhang 0..10 - 0 = blunt cutter; a fixed family of blunt layouts with forward/reverse cuts 0, 1 or 2 bases apart, the coincident ones judged up to the tie reading), a sequence of 20..3000 bases (log-uniform) with 0..6 planted "
        "sites in either orientation at arbitrary spacing (adjacent sites, paired cuts exactly two overhang lengths apart, cuts leaping "
        "over neighbouring sites, homopolymer / two-letter / random ACGT filler, filler with N / IUPAC codes / U, digits, blanks, accidental sites repaired away), mixed / all-lower / all-upper letter case. "
        "Circular parts: one case = ALL rotations of the plasmid (n <= 300) or the rotations that put the origin at / next to / inside "
        "every site and every cut plus random ones (n > 300); every rotated sequence is produced by the Lean function Spec.rotl. "
        "Linear parts; case-recasing pairs; the same flanked cassette cloned 2 or 3 times with different spacers (equal fragments: the multiset comparison counts multiplicities, List.isPerm); `hist` cases (one stored string through circular/linear, directional/non-directional calls in one process; judged and corresponded per step - only the steps whose call lies inside the quantifier count; two call orders, one starting with the non-directional calls). Out-of-domain probes (non-directional, palindromic site, self-overlapping sites and sites overlapping their reverse complement, cuts too close, "
        "tiny and empty sequences, unknown enzyme name) are corresponded but not judged. "
        "non-trivial = at least one site occurrence; distinct by case text")
EXHAUSTIVE = {"quick": False, "thorough": True}
TRUSTED_BASE = ["Spec/Digest.lean: enzyme geometries typed from REBASE (GGTCTC(1/5), GAAGAC(2/6), GCGATG(10/14)); cyclic reading of the plasmid",
                "Go regexp on a literal site = leftmost non-overlapping scan (modelled; corresponded on every case)",
                "ASCII input"]
ASSUMPTIONS = ["inputs are ASCII",
               "the quantifier is sequences of bases: a stored string containing anything but letters (digits, blanks, punctuation) is outside it "
               "and is kept as a correspondence probe (judge skip, drift only); letters other than ACGT (N, IUPAC codes, U) are inside; "
               "non-directional digestion is outside the property (the statement speaks of directional digestion): correspondence drift only",
               "coincident cuts: with overhang 0 a forward and a backward-pointing site can cut the same bond; the property statement does not "
               "determine the tie there (is the empty stretch a fragment? does a bond cut from both sides end an earlier forward cut's stretch?). "
               "Such layouts are JUDGED up to the tie reading: a reply passes when its multiset equals the digestion under either resolution "
               "(stretch: forward before reverse at the same bond, the empty stretch is reported - what the stable sort of the code gives; stretchAlt: "
               "the opposite), and for a circular part all rotations must give the same multiset; correspondence uses the same rule. Every other "
               "fragment of such a layout is unambiguous and is demanded. Outside coincident layouts the two resolutions agree "
               "(tie_free_circular / tie_free_linear). The theorems are stated for the first resolution",
               "custom enzymes carry literal (QuoteMeta) regular expressions for the site and its reverse complement"]
PARTIAL = []

BUILTIN = {"BsaI": ("GGTCTC", 1, 4), "BbsI": ("GAAGAC", 2, 4), "BtgZI": ("GCGATG", 10, 4)}
COMP = {"A": "T", "C": "G", "G": "C", "T": "A"}


def rc(s):
    return "".join(COMP[c] for c in reversed(s))


def occurrences(u, w, circular):
    m, n = len(w), len(u)
    if circular:
        if m > n:
            return []
        t = u + u[:m - 1]
        return [i for i in range(n) if t.startswith(w, i)]
    return [i for i in range(n - m + 1) if u.startswith(w, i)]


def wf(u, site, skip, oh, circular):
    """mirror of DigestSpec.wfLayoutU / wfLinear (the Lean side is the authority; this only steers generation)"""
    m, n = len(site), len(u)
    r = rc(site)
    if site == r or (circular and m > n):
        return False
    fo, ro = occurrences(u, site, circular), occurrences(u, r, circular)
    occ = fo + ro
    for a in occ:
        for b2 in occ:
            if a == b2:
                continue
            if circular:
                if (b2 - a) % n < m:
                    return False
            elif not (a + m <= b2 or b2 + m <= a):
                return False
    if circular:
        fs = [(p + m + skip) % n for p in fo]
        rs = [(q - skip) % n for q in ro]
        for c in fs:
            if not rs:
                continue
            d = min((x - c) % n for x in rs)
            if all(d < (c2 - c) % n for c2 in fs if c2 != c) and d < 2 * oh:
                return False
    else:
        fs = [p + m + skip for p in fo]
        rs = [q - skip for q in ro]
        for c in fs:
            cand = [x - c for x in rs if x >= c]
            if not cand:
                continue
            d = min(cand)
            if all(d < c2 - c for c2 in fs if c2 > c) and d < 2 * oh:
                return False
    return True


def custom_enzyme(r):
    while True:
        k = r.randint(4, 8) if r.random() < 0.85 else r.randint(9, 12)
        site = randword(r, ACGT, k)
        if site != rc(site):
            break
    skip = r.choice([0, 0, 1, 2, 3, 5, 8, 10, 12, r.randint(0, 12), r.randint(13, 30)])
    oh = r.choice([0, 0, 1, 2, 3, 4, 4, 5, 6, r.randint(0, 6), r.randint(7, 10)])
    return site, skip, oh


IUPAC_EXTRA = "NRYSWKMBDHV"
ODD = "U0123456789 -*."


def filler_alphabet(r):
    mode = r.random()
    if mode < 0.45:
        return list(ACGT)
    if mode < 0.6:
        return r.sample(ACGT, 2)
    if mode < 0.7:
        return [r.choice(ACGT)]
    if mode < 0.82:
        return list(ACGT) * 3 + ["N"]                 # a few N
    if mode < 0.92:
        return list(ACGT) + list(IUPAC_EXTRA)          # IUPAC ambiguity codes (never match a literal site)
    if mode < 0.96:
        return ["N"]
    return list(ACGT) * 2 + list(ODD)                  # U, digits, blanks, punctuation in the stored string


def layout(r, n, site, skip, oh, circular, k, wantwf=True, fixed_orient=None, fixed_gaps=None):
    """plant k sites (random orientation) into a filler of n letters; returns the sequence or None.
    fixed_orient / fixed_gaps: prescribed orientations and gaps (gap i = letters before site i)"""
    m = len(site)
    rs = rc(site)
    t = r.random()
    if fixed_orient is not None:
        orient = list(fixed_orient)
    elif t < 0.55:
        # forward and backward sites alternate: every forward cut is paired
        first = r.random() < 0.85
        orient = [first ^ (i % 2 == 1) for i in range(k)]
    elif t < 0.63:
        orient = [r.random() < 0.5] * k          # only forward or only backward sites
    else:
        orient = [r.random() < 0.5 for _ in range(k)]
    for _attempt in range(60):
        alpha = filler_alphabet(r)
        u = [r.choice(alpha) for _ in range(n)]
        planted = [False] * n
        # choose gaps: tight ones relative to the pairing rule, zero, or anything
        free = n - k * m
        if free < 0:
            return None
        gaps = []
        for i in range(k):
            t = r.random()
            if t < 0.2:
                g = 2 * skip + 2 * oh + (r.choice([0, 0, 1, 2]) if wantwf else r.choice([0, -1, -2, 1]))
            elif t < 0.3:
                g = r.choice([0, 1, skip, oh, skip + oh])
            elif t < 0.4:
                g = 2 * oh + r.randint(0, 3)
            else:
                g = r.randint(0, max(0, free))
            gaps.append(max(0, g))
        if fixed_gaps is not None:
            gaps = [r.randint(0, 6) if g is None else g for g in fixed_gaps]
            if sum(gaps) > free:
                return None
        total = sum(gaps)
        if total > free:
            # shrink the largest gaps
            gaps = [g * free // total for g in gaps]
        start = r.randrange(n) if circular else r.randint(0, free - sum(gaps))
        pos = start
        ok = True
        for i in range(k):
            pos += gaps[i]
            w = site if orient[i] else rs
            if not circular and pos + m > n:
                ok = False
                break
            for j in range(m):
                u[(pos + j) % n] = w[j]
                planted[(pos + j) % n] = True
            pos += m
        if not ok:
            continue
        # repair accidental occurrences by changing a filler letter inside them
        for _fix in range(400):
            s = "".join(u)
            acc = [(p, w) for w in (site, rs) for p in occurrences(s, w, circular)
                   if not all(planted[(p + j) % n] for j in range(m))]
            if not acc:
                break
            p, w = acc[0]
            js = [j for j in range(m) if not planted[(p + j) % n]]
            j = r.choice(js)
            u[(p + j) % n] = r.choice([c for c in ACGT if c != u[(p + j) % n]])
        s = "".join(u)
        if len(occurrences(s, site, circular)) + len(occurrences(s, rs, circular)) != k and wantwf:
            continue
        if wantwf and not wf(s, site, skip, oh, circular):
            continue
        return s
    return None


def blunt_family(r, circular):
    """fixed family: a blunt cutter (overhang 0) whose forward and backward-pointing sites cut the same bond
    (delta = 0: outside the quantifier, correspondence only) or one / two bases apart (judged), alone or
    after an earlier forward cut, or followed by a further pair"""
    while True:
        site = randword(r, ACGT, r.randint(4, 7))
        if site != rc(site):
            break
    skip = r.choice([0, 1, 2, 3, 5, 8])
    delta = r.choice([0, 0, 0, 1, 1, 2])
    pair = 2 * skip + delta
    pattern = r.choice(["FR", "FR", "FFR", "FFR", "FRFR", "RFR", "FRR"])
    orient = [c == "F" for c in pattern]
    gaps = [None] * len(pattern)
    for i in range(1, len(pattern)):
        if pattern[i - 1] == "F" and pattern[i] == "R":
            gaps[i] = pair if (i == len(pattern) - 1 or r.random() < 0.7) else 2 * skip + r.randint(0, 2)
        elif pattern[i - 1] == "F" and pattern[i] == "F":
            gaps[i] = r.randint(0, 4)          # the earlier forward cut lands shortly before the shared bond
    need = len(pattern) * len(site) + sum(g or 6 for g in gaps) + 4
    n = r.randint(max(20, need), max(20, need) + 40)
    s = layout(r, n, site, skip, 0, circular, len(pattern), True, orient, gaps)
    if s is None:
        return None
    s = anycase(r, s)
    if circular:
        return ["circ", "", site, str(skip), "0", "true", s, "all"]
    return ["lin", "", site, str(skip), "0", "true", s]


def cassette_family(r, circular):
    """the SAME flanked cassette (forward site, skip, overhang, interior, overhang, skip, backward site) cloned
    2 or 3 times with different spacers: equal fragments must be returned with their multiplicity"""
    name, site, skip, oh = pick_enzyme(r)
    rs = rc(site)
    for _ in range(40):
        copies = r.choice([2, 2, 3])
        inner = randword(r, ACGT, skip) + randword(r, ACGT, oh) + randword(r, ACGT, r.randint(0, 25)) \
            + randword(r, ACGT, oh) + randword(r, ACGT, skip)
        if oh == 0 and len(inner) == 2 * skip:
            inner = inner[:skip] + r.choice(ACGT) + inner[skip:]      # keep the two cuts apart
        cas = site + inner + rs
        alpha = r.choice([ACGT, ACGT, "AT", "N", "ACGTN"])
        parts = []
        for i in range(copies):
            parts.append(randword(r, alpha, r.randint(1 if circular else 0, 30)))
            parts.append(cas)
        parts.append(randword(r, alpha, r.randint(0, 12)))
        if r.random() < 0.3:
            # a different cassette in between: a second class of fragments
            parts.insert(2, site + randword(r, ACGT, 2 * skip + 2 * oh + r.randint(1, 9)) + rs + randword(r, alpha, r.randint(1, 9)))
        s = "".join(parts)
        while len(s) < 20:
            s += r.choice(alpha)
        nsites = len(occurrences(s, site, circular)) + len(occurrences(s, rs, circular))
        want = 2 * copies + (2 if len(parts) > 2 * copies + 1 else 0)
        if nsites == want and wf(s, site, skip, oh, circular):
            s = anycase(r, s)
            if circular:
                return ["circ"] + enz_fields(name, site, skip, oh) + ["true", s, "all" if len(s) <= 300 else special_rotations(r, s, site, skip, oh, 6)]
            return ["lin"] + enz_fields(name, site, skip, oh) + ["true", s]
    return None


def anycase(r, s):
    """letter case of the stored string: mixed, all lower, all upper"""
    t = r.random()
    if t < 0.6:
        return randcase(r, s)
    if t < 0.85:
        return s.lower()
    return s.upper()


def overlap_probe(r):
    """OUT-of-domain: site occurrences that overlap one another (self-overlap of a bordered site, or the
    site overlapping its own reverse complement) - exercises the leftmost non-overlapping scan"""
    skip, oh = r.randint(0, 6), r.randint(0, 5)
    if r.random() < 0.5:
        # bordered site B+Y+B planted as B Y B Y B ...
        while True:
            bsz = r.randint(1, 3)
            site = None
            bd, y = randword(r, ACGT, bsz), randword(r, ACGT, r.randint(0, 3))
            site = bd + y + bd
            if len(site) >= 3 and site != rc(site):
                break
        run = (bd + y) * r.randint(2, 6) + bd
        if r.random() < 0.3:
            run = rc(run)
    else:
        # X + P with P palindromic: site and rc(site) share P
        while True:
            half = randword(r, ACGT, r.randint(1, 2))
            pal = half + rc(half)
            x = randword(r, ACGT, r.randint(1, 4))
            site = x + pal
            if site != rc(site):
                break
        run = x + pal + rc(x)
        if r.random() < 0.5:
            run = run + r.choice(["", "A", "C"]) + run
    n = r.randint(max(20, len(run) + 2), 120)
    u = [r.choice(ACGT) for _ in range(n)]
    for _ in range(r.randint(1, 3)):
        p = r.randrange(0, n)
        for j, c in enumerate(run):
            u[(p + j) % n] = c
    u = anycase(r, "".join(u))
    d = r.choice(["true", "true", "false"])
    if r.random() < 0.6:
        return ["circ", "", site, str(skip), str(oh), d, u, "all" if n <= 60 else ",".join(str(r.randrange(n)) for _ in range(12))]
    return ["lin", "", site, str(skip), str(oh), d, u]


def pick_enzyme(r):
    if r.random() < 0.45:
        name = r.choice(list(BUILTIN))
        site, skip, oh = BUILTIN[name]
        return name, site, skip, oh
    site, skip, oh = custom_enzyme(r)
    return "", site, skip, oh


def special_rotations(r, s, site, skip, oh, extra):
    n, m = len(s), len(site)
    u = s.upper()
    ks = {0, 1, n - 1}
    for w, fwd in ((site, True), (rc(site), False)):
        for p in occurrences(u, w, True):
            cut = (p + m + skip) % n if fwd else (p - skip) % n
            for d in (-1, 0, 1, m - 1, m, m + 1, m // 2):
                ks.add((p + d) % n)
            for d in (-oh - 1, -oh, -1, 0, 1, oh - 1, oh, oh + 1):
                ks.add((cut + d) % n)
    ks = sorted(ks)
    if len(ks) > 120:
        ks = sorted(r.sample(ks, 120))
    more = [r.randrange(n) for _ in range(extra)]
    return ",".join(str(k) for k in ks + more)


def enz_fields(name, site, skip, oh):
    return [name, site, str(skip), str(oh)]


def circ_case(r, nmax, allrot, nmin=20, wantwf=True):
    name, site, skip, oh = pick_enzyme(r)
    for _ in range(20):
        n = loglen(r, nmin, nmax)
        k = r.choice([0, 1, 1, 2, 2, 2, 3, 3, 4, 5, 6])
        s = layout(r, n, site, skip, oh, True, k, wantwf)
        if s is not None:
            s = anycase(r, s)
            rots = "all" if allrot else special_rotations(r, s, site, skip, oh, 4)
            return ["circ"] + enz_fields(name, site, skip, oh) + ["true", s, rots]
    return None


def lin_case(r, nmax, wantwf=True):
    name, site, skip, oh = pick_enzyme(r)
    if name == "" and r.random() < 0.3:
        # overhang longer than the site: the end-trimming rule can bite
        site = site[:r.choice([4, 5])]
        while site == rc(site):
            site = randword(r, ACGT, len(site))
        oh = r.choice([5, 6])
    for _ in range(20):
        n = loglen(r, 20, nmax)
        k = r.choice([0, 1, 2, 2, 3, 3, 4, 5, 6])
        s = layout(r, n, site, skip, oh, False, k, wantwf)
        if s is not None:
            if r.random() < 0.3 and k > 0:
                # cut the sequence right after / shortly after its last site, or before its first
                u = s
                last = max([p for w in (site, rc(site)) for p in occurrences(u, w, False)] or [0])
                cutat = min(len(u), last + len(site) + r.choice([0, 0, 1, 2, oh - 1, oh, skip, skip + oh, 2 * skip + oh]))
                if cutat >= 20:
                    s = u[:cutat]
            return ["lin"] + enz_fields(name, site, skip, oh) + ["true", anycase(r, s)]
    return None


def cases(seed, tier):
    r = rng(seed, "C10")
    quick = tier == "quick"

    # --- fixed small designs: each built-in enzyme, one fragment, every rotation
    for name, (site, skip, oh) in BUILTIN.items():
        ins = "ACGTTGCAAT"
        s = "TT" + site + "A" * skip + "CCCC" + ins + "GGGG" + "T" * skip + rc(site) + "AAT"
        while len(s) < 20:
            s += "A"
        yield ["circ", name, "", "", "", "true", s, "all"]
        yield ["lin", name, "", "", "", "true", s]
        yield ["circ", "", site, str(skip), str(oh), "true", s.lower(), "all"]

    # --- all rotations of small plasmids
    nall = 45 if quick else 3000
    for i in range(nall):
        c = circ_case(r, 120 if quick else 300, True)
        if c:
            yield c
    for i in range(4 if quick else 60):
        c = circ_case(r, 300, True, nmin=200)
        if c:
            yield c

    # --- the same flanked cassette cloned 2 or 3 times: equal fragments, multiplicity matters
    for i in range(25 if quick else 400):
        for circular in (True, True, False):
            c = cassette_family(r, circular)
            if c:
                yield c

    # --- blunt cutters: coincident and near-coincident forward/reverse cuts, every rotation
    for i in range(20 if quick else 300):
        for circular in (True, False):
            c = blunt_family(r, circular)
            if c:
                yield c

    # --- the same stored string through a history of calls (both topologies, both modes) in one process
    for i in range(40 if quick else 600):
        c = lin_case(r, 400)
        if c:
            u = c[6].upper()
            name, site, skip, oh = c[1], c[2], int(c[3]), int(c[4])
            if name:
                site, skip, oh = BUILTIN[name]
            if len(u) >= len(site) and (wf(u, site, skip, oh, True) or r.random() < 0.4):
                yield ["hist"] + c[1:5] + [c[6], str(i % 2)]    # order 1 starts with the non-directional calls

    # --- larger plasmids, origin at / next to / inside every site and cut
    nbig = 260 if quick else 8000
    for i in range(nbig):
        c = circ_case(r, 1200 if quick else 3000, False)
        if c:
            yield c
    nhuge = 6 if quick else 150
    for i in range(nhuge):
        c = circ_case(r, 3000, False, nmin=1500)
        if c:
            yield c

    # --- linear parts
    nlin = 400 if quick else 12000
    for i in range(nlin):
        c = lin_case(r, 1500 if quick else 3000)
        if c:
            yield c

    # --- letter case
    ncase = 120 if quick else 1500
    for i in range(ncase):
        circ = r.random() < 0.6
        c = circ_case(r, 600, False) if circ else lin_case(r, 600)
        if c:
            s = c[6]
            yield ["case"] + c[1:6] + ["true" if circ else "false", s, randword(r, "ul", r.randint(1, 7))]

    # --- out-of-domain probes: corresponded (panics included), not judged
    nood = 220 if quick else 3500
    for i in range(nood):
        t = r.random()
        if t < 0.3:
            yield overlap_probe(r)
            continue
        t = r.random()
        if t < 0.35:
            # non-directional
            c = circ_case(r, 300, False) if r.random() < 0.5 else lin_case(r, 300)
            if c:
                c[5] = "false"
                if c[0] == "circ":
                    c[7] = ",".join(str(r.randrange(len(c[6]))) for _ in range(6))
                yield c
        elif t < 0.55:
            # layouts outside WFLayout: overlapping sites, cuts too close
            c = circ_case(r, 200, False, wantwf=False) if r.random() < 0.6 else lin_case(r, 200, wantwf=False)
            if c:
                c[5] = r.choice(["true", "true", "false"])
                if c[0] == "circ":
                    c[7] = ",".join(str(r.randrange(len(c[6]))) for _ in range(8))
                yield c
        elif t < 0.75:
            # palindromic custom site
            half = randword(r, ACGT, r.randint(2, 4))
            site = half + rc(half)
            n = r.randint(20, 200)
            u = randword(r, ACGT, n)
            for _ in range(r.randint(0, 3)):
                p = r.randrange(0, n - len(site))
                u = u[:p] + site + u[p + len(site):]
            d = r.choice(["true", "false"])
            if r.random() < 0.5:
                yield ["circ", "", site, str(r.randint(0, 4)), str(r.randint(1, 4)), d, u, ",".join(str(r.randrange(n)) for _ in range(4))]
            else:
                yield ["lin", "", site, str(r.randint(0, 4)), str(r.randint(1, 4)), d, u]
        elif t < 0.9:
            # tiny sequences (shorter than the site, empty)
            name, site, skip, oh = pick_enzyme(r)
            n = r.randint(0, 19)
            u = randword(r, ACGT, n)
            if n >= len(site) and r.random() < 0.6:
                u = (r.choice([site, rc(site)]) + u)[:max(n, len(site))]
            d = r.choice(["true", "false"])
            if r.random() < 0.6:
                yield ["circ"] + enz_fields(name, site, skip, oh) + [d, u, "all"]
            else:
                yield ["lin"] + enz_fields(name, site, skip, oh) + [d, u]
        else:
            # an enzyme name the table does not know; a lower-case site
            u = randword(r, ACGT, r.randint(20, 80))
            if r.random() < 0.5:
                yield ["lin", "BsmBI", "CGTCTC", "1", "4", "true", u + "CGTCTC" + u]
            else:
                yield ["circ", "", "ggtctc", "1", "4", "true", u + "GGTCTC" + u + "GAGACC", "0,5,9"]


TECHNIQUE = ("Lean 4 proof: CutWithEnzyme modelled statement by statement (doubling, literal-site scan, overhang records, modulo reduction, "
             "stable sort, pairing loop, slicing with Go bounds) and proved equal, as a multiset, to an independent cyclic-word spec; "
             "differential correspondence over every rotation")
LEVEL_TEXT = ("Kernel-checked theorems about the statement-by-statement model of CutWithEnzyme, for sequences of every length, every "
              "rotation offset and every non-palindromic ACGT site / skip / overhang length (0 included): spec_rotation (the cyclic-word digestion is "
              "invariant under moving the origin), cut_circular (on every layout of the quantifier the code's fragments are, as a multiset, "
              "exactly the spec's: forward cut to the next cut when that is a reverse cut), cut_rotation_independent (hence the code's multiset "
              "is the same at every rotation), cut_geometry (offsets of both overhangs, stretch between the two cuts, no other cut inside), "
              "cut_linear / cut_linear_geometry (the same exactness and offsets for linear parts, read without wrap-around: no panic, no lost "
              "fragment, every fragment inside the part - this is the content of the linear clause, under wfLinear), cut_linear_inside (a weaker "
              "remark for ALL inputs: whenever a linear call returns, every fragment is a contiguous piece of the sequence - true by the slicing "
              "discipline of the model, as it is a language guarantee in Go; outside wfLinear a linear call may still panic, e.g. paired cuts closer "
              "than two overhang lengths or the non-directional single-cut branch with a cut in the last bases, and nothing is claimed there), cut_case, "
              "builtin_pinned / byName_eq (the built-in table is the REBASE geometry). The model is tied to clone.CutWithEnzyme by correspondence "
              "on every generated case (fragment lists as multisets, panics included, ByName = direct call), and every real output is judged against "
              "the spec as a multiset at every rotation (exhaustive over all rotations for plasmids up to 300 bases in the thorough tier).")
LEVEL_NOTE = ("Trusted: Lean kernel; harness + pm_C10; REBASE geometries typed by hand in Spec/Digest.lean; Go regexp on a literal site "
              "modelled as a leftmost non-overlapping scan (corresponded on every case; a dedicated out-of-domain probe family plants self-overlapping "
              "sites and sites overlapping their reverse complement, about 6% of the quick tier); correspondence compares fragment lists as multisets; "
              "ASCII input; the complement table behind IsPalindromic is regenerated from the code on every run.")
HARNESS_BIN = "run-clone"
EXTRACT_BINS = ["extract-seq"]

# the same requests executed 8 at a time in concurrent goroutines (check: PARALLEL / harness: VERIF_PAR)
PARALLEL = {"quick": {"par": 8, "max_cases": 4000}, "thorough": {"par": 8, "max_cases": 40000, "race": True}}
