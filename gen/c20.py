"""C20 — Uniprot streaming delivers every entry once, in order, and terminates."""
from common import *
import string

RULE = ("documents of 0..200 entries (1..3 accessions, 0..2 names, sequence text of 0..2000 letters; in 30 % of the entries the texts "
        "are drawn from the reader's whole subset alphabet: blanks, tab, LF, '>', quotes, punctuation, non-ASCII; with or without the "
        "schema's attributes, protein/organism children whose own <name> elements must not leak into the entry's names, "
        "copyright element / comment / nothing between entries; with or without XML declaration and trailing newline), "
        "rendered by Lean's renderDoc; uniprot.Parse on the plain text and through gzip, uniprot.Read on a gzip temp file, "
        "also two dumps of > 100 entries opened before either is consumed; "
        "consumers: sequential (entries, then errors) and concurrent, seeded random stalls, entry/error capacities 0..100; "
        "damage: truncation at EVERY byte offset of the plain text of small documents (quick: 2 documents, one consumer/"
        "capacity/source setting per offset in rotation; thorough: 4 documents x 5 settings), truncation at EVERY byte "
        "offset of the GZIP stream of small documents for Parse-on-gzip and uniprot.Read (quick: the documents with 0, 1 "
        "and 2 entries; thorough: all four), random truncation of larger ones, overwriting one byte with 0x01 / a "
        "lone byte >= 0x80 (invalid UTF-8, applied by the harness) / '<' or a bare '&' in leaf text / a letter of an end-tag name / "
        "the opening quote of an attribute value / a letter or the ';' of an entity, a "
        "schema-invalid attribute value, gzip stream truncated or one byte flipped at random. "
        "non-trivial = at least one entry; distinct by case text")
EXHAUSTIVE = {"quick": True, "thorough": True}
TRUSTED_BASE = ["encoding/xml (abstract decoder of the model; its token trace is observed by the harness on every case and compared "
                "with the trace of the Lean reader Spec.XmlScan.scanDoc on the same text)",
                "compress/gzip", "the Go scheduler and memory model (-race runs look for data races)",
                "Entry/SequenceType unmarshalling is exercised through the judge (delivered accessions, names, sequence) only"]
ASSUMPTIONS = ["RULING (uniprot.Read returning an error): acceptable only when the gzip HEADER is damaged (the archive cannot be opened "
               "at all); when the member opens, an error from Read instead of a parse loses the entries before the damage and is "
               "judged FAIL",
               "offsets of the document spec (truncation, entry ends) are CHARACTER offsets; they are byte offsets for ASCII documents; "
               "gzip-level damage is converted from the decompressed BYTE count; a cut inside a multi-byte character is reached "
               "through gzip truncation only",
               "RULING (gzip header unreadable): uniprot.Read returns its error synchronously and that error is the report; the "
               "channels it returns alongside are not to be consumed and stay open; judged: the file is indeed damaged, no "
               "goroutine was started and nothing arrives on the channels. For Parse on a gzip reader that cannot be built "
               "nothing runs and nothing is judged.",
               "pinned beyond the property (a change there is a correspondence alarm, not a property failure): a partly "
               "decoded entry is still delivered after its error; a failure inside an entry is reported twice; errors arrive "
               "only after the entries channel is closed; Name.Local == \"entry\" in any namespace / at any depth",
               "'damaged' at the level of the model = the decoder reports an error, or the stream ends before any element; that "
               "encoding/xml reports every cut or corruption after the first element has begun is observed (judge on constructed damage), not proved",
               "on a finite input the decoder reaches EOF or an error after finitely many Token calls",
               "encoding/xml syntax and reader errors are sticky (checked on every case, reported as class tag /nonsticky otherwise)",
               "documents are ASCII",
               "a consumer is determined by the channels it is blocked on as a function of what it has received"]
PARTIAL = ["content clauses (clause 1 'exactly those k entries with the accessions, names and sequence text of each', clause 2 'the "
           "entries that precede the damage'): proved at the level of the document TEXT for the independent reader "
           "Spec.XmlScan.scanDoc (scan_document, document_delivers, scan_prefix, damaged_document_delivers) over documents of the "
           "XML subset (no entities, CDATA, ']' in text; schema-valid attribute values). MISSING: that encoding/xml + the Entry "
           "unmarshalling behave like scanDoc is not proved - it is compared (everything the Parse loop depends on: entries with "
           "contents, sawElement, how the stream ends) on every generated text of a schema-valid document: undamaged, cut at any "
           "offset (plain or through gzip), or with one character overwritten outside attribute values and outside the prolog / "
           "root start tag; a difference fails the check whatever the class of the case (reader-differs). NOT compared, because "
           "the reader does not model them: typed attribute values (dates, integers), the XML declaration and xmlns, lone high "
           "bytes, schema-invalid documents; the full list of what is outside the reader is in Spec/XmlScan.lean",
           "clause 2 'reports at least one error': proved for every stream whose trace is not that of a well-formed document "
           "(damaged_terminates, damaged_document_delivers) and, at the level of the TEXT, for TRUNCATION: every cut of a document "
           "before the end of its root element gives the reader a non-clean trace, and the entries it has completed by then are the "
           "document's first entries (truncation_detected, truncated_document_reports). MISSING: the same for corruption other than "
           "truncation (an overwritten byte etc.): no document-level theorem that such a text has a non-clean trace; the judge "
           "demands >= 1 error on every corruption that is malformed by construction, and on corruption of uncertain effect the "
           "entries before it, the closing of both channels, and an error whenever the reader's trace is not clean",
           "termination of the DECODER on a finite input is built into the model's finite traces; the original defect (endless "
           "re-sending of a sticky error) is visible to the correspondence only"]
TECHNIQUE = ("Lean 4 proof over the token loop of uniprot.Parse on an abstract decoder, as a producer on two channels of a "
             "small-step channel semantics; all schedules, all capacities; independent document writer; differential "
             "correspondence on channel traces using the real decoder's token trace")
LEVEL_TEXT = ("Kernel-checked for every trace, EVERY capacity pair (0 included), both consumers and every schedule: terminates, "
              "delivers_prefix, wellformed_delivers, damaged_terminates (no capacity hypothesis since 1559ed9), "
              "sticky_errors_le_two, run_is_maximal; at the level of the document TEXT, for the independent reader Spec.XmlScan "
              "(lexer + nesting + Parse loop + DecodeElement as a state machine): scan_document (the text of a document reads "
              "back as exactly its k entries with their accessions, names, sequence), document_delivers, scan_prefix and "
              "damaged_document_delivers (any stream that agrees with the document through an entry's end tag delivers the "
              "entries up to it first, closes both channels, reports every kept error), truncation_detected (every cut before the end "
              "of the root element is detected by the reader) and truncated_document_reports; report_before_close_blocks records why the "
              "old send order was a defect. Termination of the DECODER is an assumption built into the model's finite traces: "
              "the original defect (endless re-sending of a sticky error) is visible to the correspondence only. Tied to the "
              "code by correspondence of (closed, #errors, delivered entries) against the model run on the token trace "
              "obtained from encoding/xml for the same bytes, and of that trace against docTrace for undamaged documents; the "
              "judge compares delivered entry contents with the document spec, never with the harness's own decoding.")
LEVEL_NOTE = "Trusted: Lean kernel; harness; encoding/xml; gzip; scheduler."
HARNESS_BIN = "run-io"
EXTRACT_BINS = []
NEEDS_RACE = True
NEEDS_RACE_QUICK = True
TIMEOUT_MS = 60000

WORD = string.ascii_letters + string.digits + "_"
# texts of the reader's subset beyond word characters: blanks, tab, LF, '>', quotes, punctuation, non-ASCII
WIDE = WORD + " \t\n>\"'=/.;:-+*()[{}!?#%@^~|" + "éüΩж世界☃\U0001F9EC"
AMINO = "ACDEFGHIKLMNPQRSTVWY"


# ---- a replica of Spec/UniprotDoc.lean renderDoc, used ONLY to know the document length (the driver
# ---- reports a correspondence failure when the lengths disagree)
def prolog_text(p):
    if p == 0: return ""
    if p == 1: return '<?xml version="1.0" encoding="UTF-8"?>\n'
    return '<?xml version="1.0" encoding="UTF-8"?>\n<!-- Uniprot test document -->\n'

ROOT_OPEN = '<uniprot xmlns="http://uniprot.org/uniprot">\n'
ROOT_CLOSE = "</uniprot>"

def entry_text(e):
    accs, names, sq, attrs, extra, filler = e
    t = "<entry"
    if attrs == 1: t += ' dataset="Swiss-Prot" created="2000-05-30" modified="2019-07-03" version="106"'
    elif attrs == 3: t += ' dataset="Swiss-Prot" created="2000-45-30" modified="2019-07-03" version="106"'   # an impossible date
    elif attrs >= 2: t += ' dataset="Swiss-Prot" created="2000-05-30" modified="2019-07-03" version="x"'
    t += ">\n"
    for a in accs: t += "<accession>" + a + "</accession>\n"
    for n in names: t += "<name>" + n + "</name>\n"
    if extra:
        t += ('<protein><recommendedName><fullName>Putative transcription factor 001R</fullName></recommendedName></protein>\n'
              '<organism><name type="scientific">Frog virus 3</name><name type="common">FV3</name>'
              '<dbReference type="NCBI Taxonomy" id="654924"/></organism>\n')
    t += "<sequence"
    if attrs != 0:
        t += ' length="%d" mass="29735" checksum="B4840739BF7D4121" modified="2004-10-11" version="1"' % len(sq)
    t += ">" + sq + "</sequence>\n</entry>"
    return t

def filler_text(f):
    return {0: "\n", 1: "\n<copyright>Copyrighted by the UniProt Consortium</copyright>\n", 2: "\n<!-- between entries -->\n",
            4: "\n<copyright>Copyrighted by the UniProt Consortium &amp; others</copyright>\n"}.get(f, "")

def render(prolog, entries, tnl):
    t = prolog_text(prolog) + ROOT_OPEN
    root_start = len(prolog_text(prolog))
    ends = []
    for e in entries:
        t += entry_text(e)
        ends.append(len(t))
        t += filler_text(e[5])
    t += ROOT_CLOSE
    root_end = len(t)
    if tnl: t += "\n"
    return t, root_start, root_end, ends


def lst(l):
    return "%d:%s" % (len(l), ",".join(l))

def word(r, lo, hi, wide=False):
    return "".join(r.choices(WIDE if wide else WORD, k=r.randint(lo, hi)))

def entry(r, big=False, valid=True):
    wide = r.random() < 0.3      # texts from the whole subset alphabet, not only word characters
    accs = [word(r, 1, 10, wide) for _ in range(r.choice([1, 1, 2, 3]))]
    names = [word(r, 1, 12, wide) for _ in range(r.choice([0, 1, 1, 2]))]
    k = r.choice([0, 1, 5, 30, 30, 200]) if not big else r.randint(200, 2000)
    sq = "".join(r.choices(WIDE if wide and r.random() < 0.5 else AMINO, k=k))
    attrs = r.choice([0, 1, 1]) if valid else r.choice([2, 2, 3, 7])
    return (accs, names, sq, attrs, r.random() < 0.3, r.choice([0, 0, 1, 2, 3, 4]))

def case(r, cons, ent_cap, err_cap, src, damage, prolog, tnl, entries, pylen=True, deadline=None, stall=None):
    text, _, _, _ = render(prolog, entries, tnl)
    if deadline is None:
        deadline = 15000
    f = ["doc", cons, str(ent_cap), str(err_cap), str(deadline), src, damage, str(r.randint(0, 2 ** 31)),
         str(r.choice([0, 0, 200, 800]) if stall is None else stall), str(len(text)) if pylen else "",
         str(prolog), "1" if tnl else "0", str(len(entries))]
    for (accs, names, sq, attrs, extra, filler) in entries:
        f += [lst(accs), lst(names), sq, str(attrs), "1" if extra else "0", str(filler)]
    return f

def caps(r, k):
    c = r.random()
    if c < 0.2: e = 0
    elif c < 0.4: e = 1
    elif c < 0.7: e = r.randint(0, max(1, k))
    else: e = r.randint(0, 100)
    c = r.random()
    if c < 0.25: q = 0
    elif c < 0.45: q = 1
    elif c < 0.6: q = 2
    else: q = r.randint(0, 100)
    return e, q

SMALL = [
    # (prolog, trailing newline, entries)
    (1, True, [(["P1", "Q2"], ["AB_X"], "MKV", 1, False, 1), (["P9"], ["N2"], "AAAA", 0, False, 0)]),
    (0, False, [(["A0"], [], "", 0, False, 3), (["B1"], ["n"], "GG", 0, False, 2), (["C2"], ["m", "k"], "W", 0, False, 0)]),
    (2, True, [(["X7"], ["NM_1"], "MSIIG", 1, True, 0)]),
    (1, False, []),
]


def cases(seed, tier):
    r = rng(seed, "C20")
    quick = tier == "quick"
    # ---- exhaustive truncation of the small documents: every byte offset 0..len(+2), under several
    # ---- consumer / capacity settings (quick: one setting per offset, rotating; thorough: all)
    settings = [("conc", 0, 0, "plain"), ("seq", 0, 2, "plain"), ("seq", 3, 100, "plain"), ("conc", 1, 1, "gz"),
                ("seq", 100, 100, "read"), ("seq", 0, 0, "plain"), ("seq", 1, 1, "plain"), ("conc", 100, 0, "plain")]
    docs = SMALL[:2] if quick else SMALL
    for di, (prolog, tnl, entries) in enumerate(docs):
        text, _, _, _ = render(prolog, entries, tnl)
        for n in range(0, len(text) + 3):
            if quick:
                sel = [settings[(n + di) % 8]]
            else:
                sel = settings[:5] + [settings[5 + n % 3]]
            for (cons, ec, qc, src) in sel:
                yield case(r, cons, ec, qc, src, "trunc:%d" % n, prolog, tnl, entries)
    # ---- exhaustive truncation of the GZIP byte stream (the compressed stream of these small documents is
    # ---- shorter than the text + 24; offsets beyond its end leave it intact), Parse on gzip and uniprot.Read
    for (prolog, tnl, entries) in ([SMALL[3], SMALL[2], SMALL[0]] if quick else SMALL):
        text, _, _, _ = render(prolog, entries, tnl)
        for n in range(0, len(text) + 24):
            yield case(r, "seq", 0, 0, "gz", "gztruncabs:%d" % n, prolog, tnl, entries, stall=0)
            yield case(r, "seq" if n % 2 else "conc", 100, 100, "read", "gztruncabs:%d" % n, prolog, tnl, entries, stall=0)
    # ---- well-formed documents, 0..200 entries, every consumer / capacity / source
    for i in range(60 if quick else 1500):
        k = r.choice([0, 1, 2, 3]) if r.random() < 0.3 else min(200, loglen(r, 1, 200))
        entries = [entry(r, big=r.random() < 0.05) for _ in range(k)]
        cons = r.choice(["seq", "conc"])
        ec, qc = caps(r, k)
        yield case(r, cons, ec, qc, r.choice(["plain", "plain", "gz", "read"]), "none", r.choice([0, 1, 1, 2]),
                   r.random() < 0.7, entries)
    for k in ([200] if quick else [199, 200, 200]):
        entries = [entry(r) for _ in range(k)]
        for (cons, ec, qc) in [("seq", 0, 0), ("conc", 0, 0), ("seq", 100, 100), ("seq", 7, 0)]:
            yield case(r, cons, ec, qc, "plain", "none", 1, True, entries)
        yield case(r, "seq", 100, 100, "read", "none", 1, True, entries)
    # ---- two dumps of more than 100 entries opened with uniprot.Read before either is consumed
    for i in range(3 if quick else 40):
        entries = [entry(r) for _ in range(r.randint(101, 200))]
        yield case(r, r.choice(["seq", "conc"]), 100, 100, "read2", "none", 1, True, entries)
    # ---- a slow consumer: one stall of 1.5 s before the third receive
    if not quick:
        for (cons, ec, qc, dmg) in [("seq", 0, 0, "none"), ("conc", 1, 0, "none"), ("seq", 2, 0, "trunc:400")]:
            prolog, tnl, entries = SMALL[0]
            yield case(r, cons, ec, qc, "plain", dmg, prolog, tnl, [entry(r) for _ in range(6)] if dmg == "none" else entries, stall=2500)
    # ---- damaged larger documents
    for i in range(150 if quick else 4000):
        k = min(200, loglen(r, 1, 60 if quick else 200))
        entries = [entry(r) for _ in range(k)]
        prolog, tnl = r.choice([0, 1, 1, 2]), r.random() < 0.7
        text, root_start, root_end, ends = render(prolog, entries, tnl)
        cons = r.choice(["seq", "conc"])
        ec, qc = caps(r, k)
        src = r.choice(["plain", "plain", "gz", "read"])
        c = r.random()
        if c < 0.3:
            dmg = "trunc:%d" % r.randint(0, len(text))
        elif c < 0.4:
            e = r.choice(ends)
            dmg = "trunc:%d" % (e + r.choice([-9, -8, -1, 0, 1, 2]))
        elif c < 0.48:
            dmg = "set:%d:1" % r.randint(root_start, root_end - 1)
        elif c < 0.55:
            # a lone high byte; the harness works on bytes, so only in ASCII documents (byte offset = character offset)
            dmg = ("hset:%d:%d" % (r.randint(root_start, root_end - 1), r.choice([128, 160, 192, 233, 254, 255]))
                   if text.isascii() else "set:%d:1" % r.randint(root_start, root_end - 1))
        elif c < 0.7:
            # '<' into leaf text: pick a position inside some sequence / accession / name text
            cand = [i for i in range(root_start, root_end) if text[i] in WORD and text[i - 1] in WORD + ">" ]
            dmg = "set:%d:60" % r.choice(cand)
        elif c < 0.8:
            cand = [i for i in range(root_start + 2, root_end) if text[i - 2:i] == "</"]
            p = r.choice(cand)
            dmg = "set:%d:%d" % (p, ord("z") if text[p] != "z" else ord("y"))
        elif c < 0.9:
            src = r.choice(["gz", "read"])
            dmg = "gztrunc:%d" % r.choice([0, 1, 5, 500, 900, 990, 999] + [r.randint(0, 999)] * 4)
        else:
            src = r.choice(["gz", "read"])
            dmg = "gzflip:%d" % r.randint(0, 999)
        yield case(r, cons, ec, qc, src, dmg, prolog, tnl, entries)
    # ---- damage that only a STRICT decoder reports: a bare '&' in text, an attribute value that lost its opening
    # ---- quote, the entity &amp; with a damaged name or without its ';' (a lenient decoder reads all of these to
    # ---- the end without any error)
    for i in range(40 if quick else 600):
        k = r.randint(1, 8)
        entries = [entry(r) for _ in range(k)]
        if i % 2 == 0:
            j = r.randrange(k)
            e = entries[j]
            entries[j] = (e[0], e[1], e[2], 1, e[4], 4)          # attributes and an entity for the damage to hit
        prolog, tnl = r.choice([0, 1, 2]), r.random() < 0.7
        text, root_start, root_end, ends = render(prolog, entries, tnl)
        kind = i % 3
        if kind == 0:
            import re
            cand = [p for m in re.finditer(r">([A-Za-z0-9_]+)<", text) for p in range(m.start(1), m.end(1)) if p >= root_start]
            dmg = "set:%d:38" % r.choice(cand) if cand else "none"
        elif kind == 1:
            cand = [p for p in range(root_start + 1, root_end) if text[p] == '"' and text[p - 1] == "="
                    and text.rfind("<", 0, p) > text.rfind(">", 0, p) and text[text.rfind("<", 0, p):p].count('"') % 2 == 0]
            dmg = "set:%d:%d" % (r.choice(cand), ord("q"))
        else:
            cand = [p + d for p in range(root_start, root_end) if text[p:p + 5] == "&amp;" for d in (1, 2, 3, 4)]
            dmg = "set:%d:%d" % (r.choice(cand), ord("x")) if cand else "none"
        cons = r.choice(["seq", "conc"])
        ec, qc = caps(r, k)
        yield case(r, cons, ec, qc, r.choice(["plain", "plain", "gz", "read"]), dmg, prolog, tnl, entries)
    # ---- documented consumer, error channel of capacity 0 and 1, every kind of damage position
    prolog, tnl, entries = SMALL[0]
    for (ec, qc) in [(0, 0), (5, 0), (5, 1), (0, 1)]:
        for n in (20, 39, 60, 200, 330, 340, 345, 440, 483, 500):
            yield case(r, "seq", ec, qc, "plain", "trunc:%d" % n, prolog, tnl, entries)
    # ---- a schema-invalid attribute value (non-sticky decode error; judged as damage at that entry), and
    # ---- arbitrary overwrites (mostly unclassified: correspondence only)
    for i in range(14 if quick else 250):
        k = r.randint(1, 6)
        entries = [entry(r) for _ in range(k)]
        for j in r.sample(range(k), min(k, r.choice([1, 1, 2, 3]))):    # one to three invalid entries
            entries[j] = entry(r, valid=False)
        yield case(r, r.choice(["seq", "conc"]), r.randint(0, 5), r.randint(2, 100), "plain", "none", 1, True, entries)
    for i in range(30 if quick else 600):
        entries = [entry(r) for _ in range(r.randint(1, 4))]
        text, root_start, root_end, ends = render(1, entries, True)
        yield case(r, "conc", 0, 0, "plain", "set:%d:%d" % (r.randrange(len(text)), r.choice([32, 34, 38, 47, 60, 62, 65])),
                   1, True, entries)


RACE_ENV = {"GORACE": "halt_on_error=1", "VERIF_FLUSH_EACH": "1"}


def extra_runs(seed, tier, case_lines):
    docs = [c for c in case_lines if len(c) < 30000]
    if tier != "thorough":
        # a small race-detector run in the quick tier: every 12th case, GOMAXPROCS 4
        yield ("race-q", docs[::12][:120], dict(RACE_ENV, GOMAXPROCS="4"), True)
        return
    for procs in ("1", "2", "16"):
        k = {"1": 0, "2": 1, "16": 2}[procs]
        yield ("race-p" + procs, docs[k::3][:4000], dict(RACE_ENV, GOMAXPROCS=procs), True)
    yield ("p1", docs[::2][:6000], {"GOMAXPROCS": "1"}, False)
