"""C02 — feature sequences follow INSDC location semantics.

Abstract case = location tree(s) as s-expressions + the parent sequence:
    loc <parent> <tree> [<tree> ...]
    tree = (s a b) | (s a b <) | (s a b >) | (s a b <>) | (b n) | (j tree tree ...) | (c tree)
The Lean driver prints every tree with Insdc.print (text for genbank.Parse) and embeds it with
Insdc.embed (structure for AddFeature), so the inputs lie in the theorems' domain.  Exhaustive
families are packed BATCH trees per case (one harness request, one genbank.Parse per batch).
"""
from common import *
import itertools

RULE = ("trees: spans a..b (1<=a<=b<=n) with optional < > markers on spans, single bases, complement, join. "
        "The quantifier's exhaustive clause ('every expression with at most three operators over a 6-base parent', joins of 2..6 operands) "
        "is NOT enumerated as a whole — with joins of 2..3 operands over all 27 leaves it has 4.6e7 members at two operators and about 1e11 at "
        "three — so `exhaustive` is false in both tiers. Fully enumerated SUB-domains (every expression with exactly k operators for each k<=K "
        "over the stated leaves; a join counts one operator), thorough tier: "
        "[A] K=3, n=6, all 21 spans + 6 bases unmarked, joins of exactly two operands (2.9e6 trees); "
        "[B] K=3, n=6, joins of two AND three operands, only the six leaves 1, 4, 1..3, 2..5, 4..6, 6..6 (5.1e6 trees with a 3-operand join: every "
        "operator shape with at most three operators, e.g. join(a,complement(b),c), join(a,join(b,c),d), join(join(a,b,c),d), complement(join(a,complement(b),c))); "
        "[C] n=6, all unmarked leaves, exactly these five shapes: join(a,b,c), complement(join(a,b,c)), join(complement(a),b,c), join(a,complement(b),c), "
        "join(a,b,complement(c)) (9.8e4 trees; join(a,join(b,c),d) and join(join(a,b,c),d) over ALL leaves are enumerated only for n=4, family G); "
        "[D] K=2, n=4, all leaves with all four marker combinations, joins of two operands; [E] 4-operand joins of unmarked leaves, n=4; "
        "[F] n=3, all leaves with all four marker combinations, the five shapes of C (marked spans inside 3-operand joins); "
        "[G] n=4, all unmarked leaves: a 3-operand join with one operand a 2-operand join of leaves, and a 2-operand join with one operand a 3-operand join of leaves. "
        "quick: the same kinds of families on smaller parents (K=3,n=3 binary; K=2,n=2 and K=1,n=4 with 3-operand joins; K=2,n=4 binary; K=1,n=6 marked). "
        "Then random trees (2..6 operands, depth<=4, markers, parents 1..2000 letters, ACGT / IUPAC / mixed case; a fifth with a narrow wrapping "
        "width so that the location text spans several lines of the record). Each tree is evaluated on the text path (genbank.Parse of ONE record "
        "per batch in which a text longer than 58 columns is wrapped after commas onto continuation lines; a batch that cannot be parsed that way is a "
        "failure) and on three assembled structures "
        "(canonical; Join=false on joins; Join=false + wrapper node for every complement under a pass-through node) through AddFeature; the four "
        "written texts are judged on the case's parent and on strand- and position-separating probe parents. One-tree cases (random trees, corpus, "
        "and the long-text cases: location texts of 59..300 characters, six-operand joins with 4-6 digit positions, nested complement(join(..join(..))), "
        "parents up to 120000 letters) also run the record leg: the four locations written by genbank.Build into one record and read back by "
        "genbank.Parse, feature sequence and re-read text judged against the spec. "
        "A case line is a batch of up to 64 trees in the enumerated families (so `evaluations` counts batches); "
        "non-trivial = some tree has an operator and the parent is not a homopolymer; distinct by case text")
EXHAUSTIVE = {"quick": False, "thorough": False}
TRUSTED_BASE = ["Spec/Insdc.lean: INSDC location grammar and reading typed from the Feature Table Definition §3.4",
                "reverse complement inside denote is Transform.revComp (its agreement with the IUPAC reading is C11)",
                "Go int modelled as unbounded Int; ASCII input"]
ASSUMPTIONS = ["coordinates and parent lengths are below 2^63 (Go int = Int)", "inputs are ASCII",
               "partial markers qualify the end points of a span only (Feature Table Definition 3.4.2.1 lists 'a single base number' without them; "
               "3.4.3 shows < > on span ends): '<5' / '>5' are outside the location grammar the property is read over. poly parses '<5' to "
               "{Start:-1,End:0} and GetSequence panics; this is a correspondence-only probe, not judged",
               "the location text reaches parseLocation through genbank.Parse/getFeatures (one feature, text without blanks, wrapped after commas "
               "at 58 columns or at the case's width); that the glued text is the text sent is checked on every case (GbkLocationString): all texts of a "
               "batch are the features of ONE record, and a batch for which that does not hold is judged FAIL (class FAILR/record-path), never "
               "silently re-parsed; the parsed structure is compared with the model's",
               "'assembled as a structure' is read as: any poly.Location p with Insdc.Rep p l (join nodes with or without the Join flag when they "
               "have >= 2 sublocations, complement as merged flag or wrapper node, pass-through nodes, arbitrary coordinates/flags on inner nodes); "
               "a leaf must have Join == false and no sublocations"]
PARTIAL = [
    "build_is_insdc (written text is valid INSDC with the same bases and partial ends) holds at full strength only up to the placement of the 3' marker "
    "(build_is_insdc_lenient: the text is read by the recogniser that also accepts a..b>, and denotes the same bases and ends); strict INSDC validity is "
    "proved as build_is_insdc_partial / build_parsed_is_insdc_partial under 'no 3'-partial span' (known finding C02-writer-3prime: a..b> is written "
    "instead of a..>b; kernel-checked counterexample build_3prime_witness). The excluded class is exact: build_3prime_exact proves that the "
    "written text of EVERY location with a 3'-partial span is rejected by the strict recogniser (build_strict_iff)",
]

BATCH = 64
PARENTS6 = ["GATTAC", "ACGTTC", "AGGCTA", "CATGAG", "TTGACA"]


def leaves(n, marks):
    out = []
    for a in range(1, n + 1):
        for b in range(a, n + 1):
            for m in marks:
                out.append("(s %d %d%s)" % (a, b, (" " + m) if m else ""))
    for k in range(1, n + 1):
        out.append("(b %d)" % k)
    return out


def exprs(k, L, memo, ternary=False):
    """every expression with exactly k operators over the leaves L: complement, joins of two operands and
    (ternary) of three operands"""
    if k in memo:
        return memo[k]
    if k == 0:
        r = list(L)
    else:
        r = ["(c %s)" % x for x in exprs(k - 1, L, memo, ternary)]
        for i in range(k):
            xs, ys = exprs(i, L, memo, ternary), exprs(k - 1 - i, L, memo, ternary)
            r.extend("(j %s %s)" % (x, y) for x in xs for y in ys)
        if ternary:
            for i in range(k):
                for j in range(k - i):
                    xs, ys, zs = exprs(i, L, memo, ternary), exprs(j, L, memo, ternary), exprs(k - 1 - i - j, L, memo, ternary)
                    r.extend("(j %s %s %s)" % (x, y, z) for x in xs for y in ys for z in zs)
    memo[k] = r
    return r


def batches(trees, parents, size=BATCH):
    """pack trees into cases; trees with a 3'-partial span (the known-finding class) get batches of their own,
    so that a batch verdict is FAIL only inside that class"""
    bufs, i = {False: [], True: []}, 0
    for t in trees:
        buf = bufs[">" in t]
        buf.append(t)
        if len(buf) == size:
            yield ["loc", parents[i % len(parents)]] + buf
            del buf[:]
            i += 1
    for buf in bufs.values():
        if buf:
            yield ["loc", parents[i % len(parents)]] + buf
            i += 1


def family(K, L, parents, ternary=False, only3=False):
    memo = {}
    for k in range(K + 1):
        ts = exprs(k, L, memo, ternary)
        if only3:          # the binary-only trees are enumerated elsewhere over all leaves
            ts = (t for t in ts if shape3(t))
        yield from batches(ts, parents)


def family_g(L, parents):
    """a 3-operand join with one operand a 2-operand join of leaves; a 2-operand join with one operand a 3-operand join of leaves"""
    def gen():
        for a, b, c, d in itertools.product(L, repeat=4):
            inner2 = "(j %s %s)" % (b, c)
            yield "(j %s %s %s)" % (inner2, a, d)
            yield "(j %s %s %s)" % (a, inner2, d)
            yield "(j %s %s %s)" % (a, d, inner2)
            inner3 = "(j %s %s %s)" % (a, b, c)
            yield "(j %s %s)" % (inner3, d)
            yield "(j %s %s)" % (d, inner3)
    yield from batches(gen(), parents)


def family_c(L, parents):
    """ALL leaves of L, one 3-operand join whose operands are leaves or one complement of a leaf, and its complement"""
    def gen():
        for t in itertools.product(L, repeat=3):
            yield "(j %s %s %s)" % t
            yield "(c (j %s %s %s))" % t
            for pos in range(3):
                u = list(t)
                u[pos] = "(c %s)" % u[pos]
                yield "(j %s %s %s)" % tuple(u)
    yield from batches(gen(), parents)


def shape3(t):
    """some join in t has three operands"""
    stack = []
    for i, ch in enumerate(t):
        if ch == "(":
            if stack:
                stack[-1][1] += 1
            stack.append([t[i + 1], 0])
        elif ch == ")":
            kind, n = stack.pop()
            if kind == "j" and n == 3:
                return True
    return False


R6 = ["(b 1)", "(b 4)", "(s 1 3)", "(s 2 5)", "(s 4 6)", "(s 6 6)"]


def rand_tree(r, n, depth, pmark, pcc):
    """random in-range tree; depth = remaining operator nesting allowed"""
    def leaf():
        if r.random() < 0.25:
            return "(b %d)" % r.randint(1, n)
        a = r.randint(1, n)
        b = r.randint(a, min(n, a + int(r.expovariate(1.0 / 40)))) if r.random() < 0.7 else r.randint(a, n)
        m = ("<" if r.random() < pmark else "") + (">" if r.random() < pmark else "")
        return "(s %d %d%s)" % (a, b, (" " + m) if m else "")
    def go(d, under_c):
        x = r.random()
        if d == 0 or x < 0.25:
            return leaf()
        if x < 0.5 and (not under_c or r.random() < pcc):
            return "(c %s)" % go(d - 1, True)
        if x < 0.5:
            return leaf()
        k = r.randint(2, 6)
        return "(j %s)" % " ".join(go(d - 1, False) for _ in range(k))
    return go(depth, False)


def rand_parent(r, n):
    x = r.random()
    if x < 0.7:
        return randword(r, ACGT, n)
    if x < 0.85:
        return randcase(r, randword(r, ACGT, n))
    return randcase(r, randword(r, IUPAC15, n))


def cases(seed, tier):
    r = rng(seed, "C02")
    quick = tier == "quick"
    # ---- exhaustive families
    if quick:
        yield from family(3, leaves(3, [""]), ["GAT", "ACG", "CTA"])
        yield from family(2, leaves(2, [""]), ["GA", "AC", "CT"], ternary=True, only3=True)
        yield from family(1, leaves(4, [""]), ["GTCA", "AACG"], ternary=True, only3=True)
        yield from family(2, leaves(4, [""]), ["GTCA", "ACGA", "TTGA"])
        yield from family(1, leaves(6, ["", "<", ">", "<>"]), PARENTS6)
    else:
        yield from family(3, leaves(6, [""]), PARENTS6)                                   # A
        yield from family(3, R6, PARENTS6, ternary=True, only3=True)                       # B
        yield from family_c(leaves(6, [""]), PARENTS6)                                    # C
        yield from family(2, leaves(4, ["", "<", ">", "<>"]), ["GTCA", "ACGA", "TTGA"])  # D
        L4 = leaves(4, [""])
        yield from batches(("(j %s %s %s %s)" % t for t in itertools.product(L4, repeat=4)), ["GTCA", "AACG"])   # E
        yield from family_c(leaves(3, ["", "<", ">", "<>"]), ["GAT", "ACG", "CTA"])       # F
        yield from family_g(L4, ["GTCA", "ACGA", "TTGA"])                                  # G
    # ---- random trees, one per case
    n = 600 if quick else 12000
    for i in range(n):
        plen = loglen(r, 1, 2000)
        depth = r.randint(1, 4)
        style = i % 4
        pmark = 0.0 if style in (0, 1) else 0.2          # half of the trees carry no markers
        pcc = 0.3 if style != 3 else 0.8                 # complement directly inside complement (wrapper nodes)
        t = rand_tree(r, plen, depth, pmark, pcc)
        if style == 2 and r.random() < 0.5:              # 5'-only markers: the writer must get these right
            t = t.replace("<>", "<").replace(" >)", ")")
        if i % 5 == 4:      # narrow record: the location text is wrapped over several lines
            yield ["locw", str(r.choice([1, 1, 8, 20, 40])), rand_parent(r, plen), t]
        else:
            yield ["loc", rand_parent(r, plen), t]
    # long location texts (59..300 characters): six-operand joins with 4-6 digit positions and nested
    # complement(join(..join(..))) — as one-tree cases they also go through genbank.Build -> genbank.Parse
    # (record leg), where a writer that wraps or re-flows the location field would show
    def far_span(plen, marks):
        a = r.randint(max(1, plen // 2), plen)
        b = min(plen, a + r.randint(0, 120))
        m = ("<" if marks and r.random() < 0.15 else "")
        return "(s %d %d%s)" % (a, b, (" " + m) if m else "")
    for i in range(40 if quick else 600):
        plen = r.choice([2000, 2000, 2000, 1500, 9999]) if i % 10 else r.choice([20000, 120000])
        marks = i % 3 == 0
        k = i % 4
        if k == 0:
            t = "(j %s)" % " ".join(far_span(plen, marks) for _ in range(6))
        elif k == 1:
            t = "(c (j %s (j %s) %s))" % (far_span(plen, marks), " ".join(far_span(plen, marks) for _ in range(3)),
                                          " ".join(far_span(plen, marks) for _ in range(2)))
        elif k == 2:
            t = "(j %s (c (j %s (c (j %s)))) (b %d))" % (far_span(plen, marks), " ".join(far_span(plen, marks) for _ in range(2)),
                                                         " ".join(far_span(plen, marks) for _ in range(3)), r.randint(plen // 2, plen))
        else:
            t = "(c (j %s))" % " ".join("(c %s)" % far_span(plen, marks) if r.random() < 0.5 else far_span(plen, marks) for _ in range(r.randint(4, 6)))
        yield ["loc", randword(r, ACGT, plen), t]
    # deep / wide extremes (their texts are several hundred characters long: wrapped at 58 columns)
    for i in range(10 if quick else 100):
        plen = r.randint(50, 2000)
        t = "(s %d %d)" % (1, plen)
        for d in range(r.randint(5, 12)):
            t = "(j %s %s)" % (t, rand_tree(r, plen, 1, 0.0, 0.0)) if d % 2 else "(c (j (b %d) %s))" % (r.randint(1, plen), t)
        yield ["loc", rand_parent(r, plen), t]
    # ---- outside the quantifier: correspondence only (model drift is information, not a verdict)
    p = "GATTACAGGC"
    for raw in ["3..7>", "<3..7>", ">3..<7", "join()", "join(1..2)", "5.6", ")(", "(", "order(1..2,3..4)", "", "abc", "0", "0..0",
                "complement()", "complement(complement(1..2))", "join(1..2,)", "join(,1..2)", "join(1..2,3..4))", "join((1..2,3..4)",
                "3..12", "12", "7..3", "-3..4", "+3..4", "1..2..3", "3^4", "join(1..2,order(3..4,5..6))", "J00194.1:1..5",
                "complement(join(1..2,3..4),5..6)", "complement(3..7", "3..7)", "join(complement(1..2)..3,4)", "complement(1..0)",
                "<5", ">5", "complement(<5)", "join(<1,3..4)", "<5..7>", "01..5", "3..>7>"]:
        yield ["text", p, raw]
    for pl in ["(0 0 - (0 3 -) (3 6 c))", "(0 0 c (2 5 -))", "(0 0 j)", "(0 0 -)", "(2 12 -)", "(-1 3 -)", "(5 3 -)", "(0 0 cj53 (1 2 53))",
               "(2 5 cj)", "(2 5 c53)", "(0 0 - (2 5 -))", "(0 0 - (2 5 c))", "(0 0 j (2 5 -))", "(0 0 5 (0 0 3 (1 2 53)))", "(1 2 - (3 4 -) (5 6 c) (7 8 -))", "(0 0 c (0 0 c (0 0 c (1 4 -))))", "(3 3 -)", "(10 10 -)", "(0 0 j (0 0 j (1 2 -)) (0 11 -))"]:
        yield ["ploc", p, pl]
    for t in ["(s 3 12)", "(b 11)", "(b 0)", "(s 0 3)", "(s 5 3)", "(j (s 1 2))", "(j)", "(c (j))", "(j (s 1 2) (s 9 11))"]:
        yield ["loc", p, t]


TECHNIQUE = ("Lean 4 proof over executable models of parseLocation / getFeatureSequence / BuildLocationString against an abstract syntax "
             "with INSDC denotation; mutual structural induction over the nested location type; differential correspondence incl. exhaustive small domains")
LEVEL_TEXT = ("Theorems (Props/C02) for every location tree of any depth and operand count whose positions lie on the parent, and for EVERY "
              "poly.Location structure p with Rep p l (join nodes with or without the Join flag, complement merged or as wrapper node, pass-through "
              "nodes, arbitrary inner-node coordinates/flags): p evaluates to the INSDC reading (eval_assembled), records the partial ends "
              "(partial_flags_assembled) and is written as text that the lenient recogniser reads back to a location with the same bases and ends "
              "(build_is_insdc_lenient, full strength) — strictly valid INSDC exactly when there is no 3'-partial span (build_is_insdc_partial, build_3prime_exact, "
              "build_strict_iff; kernel-checked counterexample build_3prime_witness). The canonical text parses to exactly the structure pembed l "
              "(parsed_structure: the depth-0 comma splitter inverts operand printing, Atoi inverts Itoa, Index/LastIndex/slices cut keyword and body), "
              "which is in the family (parsed_represents), so eval_parse, partial_flags, build_parsed_is_insdc_lenient/_partial follow; "
              "embed_represents / embedV_represents put the structures sent to AddFeature in the family. "
              "Tie: correspondence of genbank.Parse (wrapped multi-line location text) + GetSequence + BuildLocationString and of AddFeature + "
              "GetSequence + BuildLocationString on three structure variants with the model on every case, exhaustive families named in `rule`; "
              "every observation is made twice on the same feature (writing must not change the location).")
LEVEL_TEXT += (" Totality (used by C01): parseLocation_total — the model of parseLocation does not panic on any location text of C01's domain "
               "predicate GbLayout.isLocText (parseLocation_total_shape: atoms without parentheses/commas, any operator word, complement with one operand, "
               "any nesting; parseLocation_print_total for the canonical texts); parseLocation_panics_unclosed names what still panics: a '(' that no ')' follows.")
LEVEL_TEXT += (" Read after write (used by C03): read_write_assembled — for every structure p representing l, parseLocation (buildLoc p) is a structure "
               "representing l with the same partial ends (parsed_written_structure, written_text, read_write_denotes; read_write_leaf for single spans with "
               "arbitrary int coordinates).")
LEVEL_NOTE = ("Trusted: Lean kernel; harness + driver; the INSDC grammar/denotation typed by hand (markers on span ends only); Go int as Int; "
              "buildLoc/getSeq are pure functions of the structure — that the Go functions do not modify the caller's structure is tied only by "
              "observing each feature twice; the flags parseLocation puts on inner nodes are pinned by the correspondence and by parsed_structure "
              "but are not constrained by the property. Stated modulo C11 for the reverse complement.")

HARNESS_BIN = "run-genbank"
EXTRACT_BINS = ["extract-seq"]

# the same requests executed 8 at a time in concurrent goroutines (check: PARALLEL / harness: VERIF_PAR)
PARALLEL = {"quick": {"par": 8, "max_cases": 4000}, "thorough": {"par": 8, "max_cases": 40000, "race": True}}
