"""C02 — feature sequences follow INSDC location semantics.

Abstract case = location tree(s) as s-expressions + the parent sequence:
    loc <parent> <tree> [<tree> ...]
    tree = (s a b) | (s a b <) | (s a b >) | (s a b <>) | (b n) | (j tree tree ...) | (c tree)
The Lean driver prints every tree with Insdc.print (text for genbank.Parse) and embeds it with
Insdc.embed (structure for AddFeature), so the inputs lie in the theorems' domain.  Exhaustive
families are packed BATCH trees per case (one harness request, one genbank.Parse per batch).
"""
from common import *
import itertools

RULE = ("trees: spans a..b (1<=a<=b<=n) with optional < > markers, single bases, complement, join; EXHAUSTIVE families "
        "(every expression with exactly k operators, k<=K, binary joins, over every span and base of an n-base parent): "
        "quick K=3,n=3 and K=2,n=4 unmarked, K=1,n=6 with all marker combinations, all 3-operand joins of leaves n=4; "
        "thorough K=3,n=6 unmarked (2.9e6 trees), K=2,n=4 with all marker combinations, 3-operand joins n=6, 4-operand joins n=4; "
        "then random trees (2..6 operands, depth<=4, markers, parents 1..2000 letters, ACGT / IUPAC / mixed case). "
        "Each tree is evaluated on both paths (text through genbank.Parse, structure through AddFeature) and both written texts are judged. "
        "A case line is a batch of up to 64 trees in the exhaustive families (so `evaluations` counts batches); "
        "non-trivial = some tree has an operator and the parent is not a homopolymer; distinct by case text")
EXHAUSTIVE = {"quick": True, "thorough": True}
TRUSTED_BASE = ["Spec/Insdc.lean: INSDC location grammar and reading typed from the Feature Table Definition §3.4",
                "reverse complement inside denote is Transform.revComp (its agreement with the IUPAC reading is C11)",
                "Go int modelled as unbounded Int; ASCII input"]
ASSUMPTIONS = ["coordinates and parent lengths are below 2^63 (Go int = Int)", "inputs are ASCII",
               "the location text reaches parseLocation unchanged through genbank.Parse/getFeatures (single feature line, no blanks; checked on every case by the correspondence of the parsed structure)"]
PARTIAL = [
    "build_is_insdc (written text is valid INSDC with the same bases and partial ends) is proved as build_is_insdc_partial / build_parsed_is_insdc_partial "
    "under the hypothesis 'no 3'-partial span' (known finding C02-writer-3prime: a..b> is written instead of a..>b; kernel-checked counterexample build_3prime_witness)",
]

BATCH = 64
PARENTS6 = ["GATTAC", "ACGTTC", "AGGCTA", "CATGAG", "TTGACA"]


def leaves(n, marks):
    out = []
    for a in range(1, n + 1):
        for b in range(a, n + 1):
            for m in marks:
                out.append("(s %d %d%s)" % (a, b, (" " + m) if m else ""))
    for k in range(1, n + 1):
        out.append("(b %d)" % k)
    return out


def exprs(k, L, memo):
    """every expression with exactly k operators (complement, binary join) over the leaves L"""
    if k in memo:
        return memo[k]
    if k == 0:
        r = list(L)
    else:
        r = ["(c %s)" % x for x in exprs(k - 1, L, memo)]
        for i in range(k):
            xs, ys = exprs(i, L, memo), exprs(k - 1 - i, L, memo)
            r.extend("(j %s %s)" % (x, y) for x in xs for y in ys)
    memo[k] = r
    return r


def batches(trees, parents, size=BATCH):
    """pack trees into cases; trees with a 3'-partial span (the known-finding class) get batches of their own,
    so that a batch verdict is FAIL only inside that class"""
    bufs, i = {False: [], True: []}, 0
    for t in trees:
        buf = bufs[">" in t]
        buf.append(t)
        if len(buf) == size:
            yield ["loc", parents[i % len(parents)]] + buf
            del buf[:]
            i += 1
    for buf in bufs.values():
        if buf:
            yield ["loc", parents[i % len(parents)]] + buf
            i += 1


def family(K, n, marks, parents):
    L = leaves(n, marks)
    memo = {}
    for k in range(K + 1):
        yield from batches(exprs(k, L, memo), parents)


def rand_tree(r, n, depth, pmark, pcc):
    """random in-range tree; depth = remaining operator nesting allowed"""
    def leaf():
        if r.random() < 0.25:
            return "(b %d)" % r.randint(1, n)
        a = r.randint(1, n)
        b = r.randint(a, min(n, a + int(r.expovariate(1.0 / 40)))) if r.random() < 0.7 else r.randint(a, n)
        m = ("<" if r.random() < pmark else "") + (">" if r.random() < pmark else "")
        return "(s %d %d%s)" % (a, b, (" " + m) if m else "")
    def go(d, under_c):
        x = r.random()
        if d == 0 or x < 0.25:
            return leaf()
        if x < 0.5 and (not under_c or r.random() < pcc):
            return "(c %s)" % go(d - 1, True)
        if x < 0.5:
            return leaf()
        k = r.randint(2, 6)
        return "(j %s)" % " ".join(go(d - 1, False) for _ in range(k))
    return go(depth, False)


def rand_parent(r, n):
    x = r.random()
    if x < 0.7:
        return randword(r, ACGT, n)
    if x < 0.85:
        return randcase(r, randword(r, ACGT, n))
    return randcase(r, randword(r, IUPAC15, n))


def cases(seed, tier):
    r = rng(seed, "C02")
    quick = tier == "quick"
    # ---- exhaustive families
    if quick:
        yield from family(3, 3, [""], ["GAT", "ACG", "CTA"])
        yield from family(2, 4, [""], ["GTCA", "ACGA", "TTGA"])
        yield from family(1, 6, ["", "<", ">", "<>"], PARENTS6)
        L4 = leaves(4, [""])
        yield from batches(("(j %s %s %s)" % t for t in itertools.product(L4, repeat=3)), ["GTCA", "AACG"])
    else:
        yield from family(3, 6, [""], PARENTS6)
        yield from family(2, 4, ["", "<", ">", "<>"], ["GTCA", "ACGA", "TTGA"])
        L6 = leaves(6, [""])
        yield from batches(("(j %s %s %s)" % t for t in itertools.product(L6, repeat=3)), PARENTS6)
        yield from batches(("(c (j %s %s %s))" % t for t in itertools.product(L6, repeat=3)), PARENTS6)
        L4 = leaves(4, [""])
        yield from batches(("(j %s %s %s %s)" % t for t in itertools.product(L4, repeat=4)), ["GTCA", "AACG"])
    # ---- random trees, one per case
    n = 600 if quick else 12000
    for i in range(n):
        plen = loglen(r, 1, 2000)
        depth = r.randint(1, 4)
        style = i % 4
        pmark = 0.0 if style in (0, 1) else 0.2          # half of the trees carry no markers
        pcc = 0.3 if style != 3 else 0.8                 # complement directly inside complement (wrapper nodes)
        t = rand_tree(r, plen, depth, pmark, pcc)
        if style == 2 and r.random() < 0.5:              # 5'-only markers: the writer must get these right
            t = t.replace("<>", "<").replace(" >)", ")")
        yield ["loc", rand_parent(r, plen), t]
    # deep / wide extremes
    for i in range(10 if quick else 100):
        plen = r.randint(50, 2000)
        t = "(s %d %d)" % (1, plen)
        for d in range(r.randint(5, 12)):
            t = "(j %s %s)" % (t, rand_tree(r, plen, 1, 0.0, 0.0)) if d % 2 else "(c (j (b %d) %s))" % (r.randint(1, plen), t)
        yield ["loc", rand_parent(r, plen), t]
    # ---- outside the quantifier: correspondence only (model drift is information, not a verdict)
    p = "GATTACAGGC"
    for raw in ["3..7>", "<3..7>", ">3..<7", "join()", "join(1..2)", "5.6", ")(", "(", "order(1..2,3..4)", "", "abc", "0", "0..0",
                "complement()", "complement(complement(1..2))", "join(1..2,)", "join(,1..2)", "join(1..2,3..4))", "join((1..2,3..4)",
                "3..12", "12", "7..3", "-3..4", "+3..4", "1..2..3", "3^4", "join(1..2,order(3..4,5..6))", "J00194.1:1..5",
                "complement(join(1..2,3..4),5..6)", "complement(3..7", "3..7)", "join(complement(1..2)..3,4)", "complement(1..0)"]:
        yield ["text", p, raw]
    for pl in ["(0 0 - (0 3 -) (3 6 c))", "(0 0 c (2 5 -))", "(0 0 j)", "(0 0 -)", "(2 12 -)", "(-1 3 -)", "(5 3 -)", "(0 0 cj53 (1 2 53))",
               "(2 5 cj)", "(2 5 c53)", "(0 0 - (2 5 -))", "(0 0 - (2 5 c))", "(0 0 j (2 5 -))", "(0 0 5 (0 0 3 (1 2 53)))", "(1 2 - (3 4 -) (5 6 c) (7 8 -))", "(0 0 c (0 0 c (0 0 c (1 4 -))))", "(3 3 -)", "(10 10 -)", "(0 0 j (0 0 j (1 2 -)) (0 11 -))"]:
        yield ["ploc", p, pl]
    for t in ["(s 3 12)", "(b 11)", "(b 0)", "(s 0 3)", "(s 5 3)", "(j (s 1 2))", "(j)", "(c (j))", "(j (s 1 2) (s 9 11))"]:
        yield ["loc", p, t]


TECHNIQUE = ("Lean 4 proof over executable models of parseLocation / getFeatureSequence / BuildLocationString against an abstract syntax "
             "with INSDC denotation; mutual structural induction over the nested location type; differential correspondence incl. exhaustive small domains")
LEVEL_TEXT = ("Theorems (Props/C02) for every location tree of any depth and operand count whose positions lie on the parent: the assembled "
              "structure evaluates to the INSDC reading (eval_embed); the parsed canonical text yields exactly the structure pembed l "
              "(parsed_structure: the depth-0 comma splitter inverts operand printing, Atoi inverts Itoa, Index/LastIndex/slices cut keyword and body), "
              "keeps the partial flags (partial_flags) and evaluates to the INSDC reading (eval_parse) — all at full strength, complement of complement included; "
              "the written text is accepted by a strict INSDC recogniser and denotes the same bases and ends when there is no 3'-partial span "
              "(build_is_insdc_partial, build_parsed_is_insdc_partial), with a kernel-checked counterexample for the excluded class. "
              "Tie: correspondence of genbank.Parse + GetSequence + BuildLocationString and of AddFeature + GetSequence + BuildLocationString "
              "with the model on every case, exhaustive families named in `rule`.")
LEVEL_NOTE = ("Trusted: Lean kernel; harness + driver; the INSDC grammar/denotation typed by hand; Go int as Int; the record wrapper "
              "(getFeatures hands the text to parseLocation unchanged). Stated modulo C11 for the reverse complement.")

HARNESS_BIN = "run-genbank"
EXTRACT_BINS = ["extract-seq"]
