"""C11 — reverse complement and IUPAC expansion."""
from common import *

RULE = ("revcomp: every string over the 15 IUPAC codes, upper case to length L1 and mixed case to length L2 "
        "(exhaustive), then random strings (log-uniform length to 10^4, random case); variants: every string over "
        "the 15 codes to length L3 (exhaustive), random strings whose expansion has at most 4096 (some up to 10^6 in the thorough tier) readings, and strings with more than MaxInt32 readings (which must be refused with an error). "
        "non-trivial = revcomp input of length >= 2 / variants input with at least one ambiguity code; distinct by case text")
EXHAUSTIVE = {"quick": False, "thorough": True}
TRUSTED_BASE = ["Spec/Nucleotide.lean: IUPAC code sets typed from the IUPAC-IUB nomenclature",
                "ASCII restriction: Go rune/byte behaviour on non-ASCII input is outside the model"]
ASSUMPTIONS = ["inputs are ASCII"]

def cases(seed, tier):
    r = rng(seed, "C11")
    L1, L2, L3 = (3, 2, 3) if tier == "quick" else (5, 3, 4)
    for w in words(IUPAC15, L1):
        yield ["revcomp", w]
    both = IUPAC15 + IUPAC15.lower()
    for w in words(both, L2, 1):
        yield ["revcomp", w]
    for w in words(IUPAC15, L3):
        yield ["variants", w]
    for w in words("aCnRy", 3, 1):
        yield ["variants", w]
    n = 300 if tier == "quick" else 5000
    comp = dict(zip("ACGTRYSWKMBDHVN", "TGCAYRSWMKVHDBN"))
    comp.update({k.lower(): v.lower() for k, v in list(comp.items())})
    for _ in range(n):
        k = loglen(r, 1, 10000) if r.random() < 0.8 else r.randint(3000, 10000)   # the property names lengths to 10^4
        w = randcase(r, randword(r, IUPAC15, k))
        kind = r.random()
        if kind < 0.25:     # an exact reverse-palindrome (case pattern mirrored too)
            w = w + "".join(comp[c] for c in reversed(w))
        elif kind < 0.35:   # a near-palindrome: one letter or one case off
            w = list(w + "".join(comp[c] for c in reversed(w)))
            p = r.randrange(len(w))
            w[p] = w[p].swapcase() if r.random() < 0.5 else r.choice(IUPAC15)
            w = "".join(w)
        elif kind < 0.45:   # odd length with a self-complementary centre
            w = w + r.choice("SWNswn") + "".join(comp[c] for c in reversed(w))
        yield ["revcomp", w]
    size_of = {"A":1,"C":1,"G":1,"T":1,"N":4,"B":3,"D":3,"H":3,"V":3}
    cap = 4096 if tier == "quick" else 200000
    for i in range(n):
        k = r.randint(1, 14 if i % 10 else 40)
        w, total = "", 1
        for _ in range(k):
            c = r.choice(IUPAC15 if r.random() < 0.5 else ACGT)
            size = size_of.get(c, 2)
            if total * size > (cap if i % 50 == 0 else 4096):
                c, size = r.choice(ACGT), 1
            total *= size
            w += c
        yield ["variants", randcase(r, w)]
    # expansions that cannot be enumerated (more than MaxInt32 readings): the code must refuse with an error.
    # (Counts between 2*10^6 and MaxInt32 are never generated: they are legal but need tens of gigabytes.)
    for w in ["N" * 16, "N" * 31, "N" * 32, "N" * 33, "NNK" * 22, "R" * 32, "R" * 64, "ACGT" + "N" * 40 + "ACGT",
              "B" * 20, "B" * 41, "n" * 64, "N" * 1000, "NB" * 9 + "ACGT"]:
        yield ["variants", w]
    for _ in range(20 if tier == "quick" else 300):
        k = r.randint(16, 200)
        yield ["variants", randcase(r, randword(r, "NBDHVRYKMSW", k))]
    # out-of-domain probes (not judged; model drift is reported only as information)
    for w in ["U", "u", "ACGU", "X", "acgtz", "A-C", "AC GT", "1"]:
        yield ["revcomp", w]
        yield ["variants", w]

TECHNIQUE = "Lean 4 proof over a model whose lookup tables are regenerated from the code; decide on the full tables, induction over strings; differential correspondence"
LEVEL_TEXT = ("All clauses are kernel-checked theorems for strings of every length over the 15 codes in either case "
              "(rc_length, rc_case, rc_eq_reverse_of_complement, rc_rc, rc_append, palindromic_iff, rc_spec, variants_exact, "
              "variants_concrete, variants_rc). The two lookup tables the theorems rest on are re-extracted from the compiled "
              "code over the whole rune domain on every run and the table lemmas are re-decided, so a changed table entry "
              "breaks a proof obligation; the three algorithms (reverse, map, odometer product) are tied by correspondence "
              "(exhaustive to length 5 / 3 mixed case / 4 for expansion in the thorough tier, random to 10^4), including output order.")
LEVEL_NOTE = ("Trusted: Lean kernel; extractor and correspondence harness; the IUPAC code-set spec typed by hand; "
              "Go's strings.Map / range / ToUpper modelled on ASCII only.")

HARNESS_BIN = "run-seq"
EXTRACT_BINS = ["extract-seq"]
