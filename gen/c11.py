"""C11 — reverse complement and IUPAC expansion."""
from common import *

RULE = ("revcomp: every string over the 15 IUPAC codes, upper case to length L1 and mixed case to length L2 "
        "(exhaustive), then random strings (log-uniform length to 10^4, random case, exact / near / odd-centre palindromes); variants: every string over "
        "the 15 codes to length L3 (exhaustive); random short strings (to 40 letters) with at most 4096 readings; strings with 10^4..10^5 readings "
        "(N^7, N^8, (NNK)^3, random; thorough: to 2*10^6, N^10); long mostly-concrete strings (10^3..10^4 letters with at most 8 readings, "
        "10^4 letters with 24 readings, 200..10^4 letters with up to 6 (thorough 9) ambiguity codes at random positions); strings with more than "
        "MaxInt32 readings (must be refused with an error); three deliberate inputs the check cannot enumerate but the code would try to "
        "(N^12, N^15, (nB)^7: not submitted to the code, class too-large, not judged). The generator never emits such an input by accident. "
        "non-trivial = revcomp input of length >= 2 / variants input with at least one ambiguity code; distinct by case text")
EXHAUSTIVE = {"quick": False, "thorough": True}
TRUSTED_BASE = ["Spec/Nucleotide.lean: IUPAC code sets typed from the IUPAC-IUB nomenclature",
                "ASCII restriction: Go rune/byte behaviour on non-ASCII input is outside the model",
                "the judge's predicates are proved to be the statement of the theorems: isExpansion_iff (all read + no repeat + right count "
                "<=> duplicate-free and exactly the set of readings), judge_allDistinct_iff (merge sort + neighbours <=> Nodup), inDomain_iff",
                "canEnumerate (at most 2*10^6 readings and 5*10^7 letters) is a parameter of the CHECK: below it the full expansion is demanded "
                "(a refusal is a FAIL whatever the count - no threshold is taken from the code); up to readings x (letters+1) <= 2.3*10^8 the code is "
                "still called and count + a sample are judged (a refusal is a FAIL: N^11, 2*4^11, N^12 - a guard lowered to below 1.6*10^7 FAILs); "
                "beyond that memory budget and up to MaxInt32 readings the harness does not call the code (harnessCallsAbove); "
                "the guard's position is pinned from above by the extractor (Gen/IupacGuard: 2^31 = N^15 R and other products of 2s and 3s above "
                "MaxInt32 are refused, N^10 is accepted; Props/C11.guard_probes_consistent decides that this agrees with the model's maxInt32)"]
ASSUMPTIONS = ["inputs are ASCII",
               "the model (allVariants = some ... up to MaxInt32 readings) assumes memory for up to MaxInt32 x len runes; the real code dies "
               "of memory exhaustion long before, and nothing is observed between the check's enumeration cap and MaxInt32"]
PARTIAL = ["expansion clause ('returns each concrete sequence exactly once and nothing else'): proved for inputs with at most MaxInt32 readings "
           "(variants_exact); above, the code refuses with an error (variants_too_many) - the literal clause cannot hold there, the list cannot be "
           "built; the property text states no bound, MaxInt32 is the code's own (fix fce67c5)"]

import math
SIZE = {"A": 1, "C": 1, "G": 1, "T": 1, "R": 2, "Y": 2, "S": 2, "W": 2, "K": 2, "M": 2, "B": 3, "D": 3, "H": 3, "V": 3, "N": 4}
MAXINT32 = 2147483647

def count_readings(w):
    n = 1
    for c in w.upper():
        n *= SIZE[c]
    return n

def can_enumerate(w):
    """the same predicate as Driver/C11.lean `canEnumerate` and the harness op"""
    n = count_readings(w)
    return n <= 2000000 and n * (len(w) + 1) <= 50000000

def enumerable_or_refused(r, w):
    """never emit by accident an input the check cannot enumerate but the code would try to (up to terabytes):
    make ambiguity letters concrete, from the end, until the input is enumerable"""
    w = list(w)
    i = len(w) - 1
    while not can_enumerate("".join(w)) and count_readings("".join(w)) <= MAXINT32 and i >= 0:
        if SIZE[w[i].upper()] > 1:
            w[i] = r.choice(ACGT).lower() if w[i].islower() else r.choice(ACGT)
        i -= 1
    return "".join(w)

def cases(seed, tier):
    r = rng(seed, "C11")
    L1, L2, L3 = (3, 2, 3) if tier == "quick" else (5, 3, 4)
    for w in words(IUPAC15, L1):
        yield ["revcomp", w]
    both = IUPAC15 + IUPAC15.lower()
    for w in words(both, L2, 1):
        yield ["revcomp", w]
    for w in words(IUPAC15, L3):
        yield ["variants", w]
    for w in words("aCnRy", 3, 1):
        yield ["variants", w]
    n = 300 if tier == "quick" else 5000
    comp = dict(zip("ACGTRYSWKMBDHVN", "TGCAYRSWMKVHDBN"))
    comp.update({k.lower(): v.lower() for k, v in list(comp.items())})
    for _ in range(n):
        k = loglen(r, 1, 10000) if r.random() < 0.8 else r.randint(3000, 10000)   # the property names lengths to 10^4
        w = randcase(r, randword(r, IUPAC15, k))
        kind = r.random()
        if kind < 0.25:     # an exact reverse-palindrome (case pattern mirrored too)
            w = w + "".join(comp[c] for c in reversed(w))
        elif kind < 0.35:   # a near-palindrome: one letter or one case off
            w = list(w + "".join(comp[c] for c in reversed(w)))
            p = r.randrange(len(w))
            w[p] = w[p].swapcase() if r.random() < 0.5 else r.choice(IUPAC15)
            w = "".join(w)
        elif kind < 0.45:   # odd length with a self-complementary centre
            w = w + r.choice("SWNswn") + "".join(comp[c] for c in reversed(w))
        yield ["revcomp", w]
    # ---- expansions.  Every generated input is either enumerable by this check (canEnumerate: at most
    # 2*10^6 readings and 3*10^7 letters in all, the same predicate as Driver/C11.lean and the harness),
    # or has more than MaxInt32 readings (must be refused), or is one of the three DELIBERATE
    # not-enumerable-but-below-MaxInt32 inputs at the end (the harness does not call the code for those).
    cap = 4096 if tier == "quick" else 200000
    for i in range(n):
        k = r.randint(1, 14 if i % 10 else 40)
        w, total = "", 1
        for _ in range(k):
            c = r.choice(IUPAC15 if r.random() < 0.5 else ACGT)
            size = SIZE[c]
            if total * size > (cap if i % 50 == 0 else 4096):
                c, size = r.choice(ACGT), 1
            total *= size
            w += c
        yield ["variants", enumerable_or_refused(r, randcase(r, w))]
    # large expansions, also in the quick tier: 10^4 .. 10^5 readings (thorough: to 2*10^6)
    for w in ["N" * 7, "N" * 8, "NNK" * 3, "nnk" * 3 + "r", "B" * 9, "RYSWKM" * 2 + "RYSW"]:
        yield ["variants", w]
    hi = 100000 if tier == "quick" else 2000000
    for _ in range(6 if tier == "quick" else 24):
        target = int(math.exp(r.uniform(math.log(10000), math.log(hi))))
        w, total = "", 1
        while True:
            c = r.choice("NBDHVRYKMSW")
            if total * SIZE[c] > target: break
            total *= SIZE[c]; w += c
            if r.random() < 0.3: w += r.choice(ACGT)
        yield ["variants", enumerable_or_refused(r, randcase(r, w))]
    if tier == "thorough":
        yield ["variants", "N" * 10]          # 1 048 576 readings
    # long, mostly concrete inputs (the property: random to length 10^4): few ambiguity codes at random positions
    def sprinkle(length, codes):
        w = list(randword(r, ACGT, length))
        for c, pos in zip(codes, r.sample(range(length), len(codes))):
            w[pos] = c
        return randcase(r, "".join(w))
    for _ in range(12 if tier == "quick" else 150):
        length = loglen(r, 1000, 10000)
        bits = r.randint(0, 3)                # at most 8 readings
        yield ["variants", sprinkle(length, [r.choice("RYSWKM") for _ in range(bits)])]
    w = list(randword(r, ACGT, 10000)); w[17], w[5000], w[9999] = "N", "R", "B"   # 24 readings, 10^4 letters
    yield ["variants", "".join(w)]
    for _ in range(3 if tier == "quick" else 30):
        length = loglen(r, 200, 10000)
        codes = [r.choice("NBDHVRYKMSW") for _ in range(r.randint(1, 9))] if tier == "thorough" else \
                [r.choice("RYSWKMB") for _ in range(r.randint(1, 6))]
        yield ["variants", enumerable_or_refused(r, sprinkle(length, codes))]
    # expansions that cannot be enumerated by anybody (more than MaxInt32 readings): the code must refuse with an error.
    for w in ["N" * 16, "N" * 31, "N" * 32, "N" * 33, "NNK" * 22, "R" * 31, "R" * 32, "R" * 64, "ACGT" + "N" * 40 + "ACGT",
              "B" * 20, "B" * 41, "n" * 64, "N" * 1000, "NB" * 9 + "ACGT", "N" * 15 + "R"]:
        yield ["variants", w]
    for _ in range(20 if tier == "quick" else 300):
        k = r.randint(16, 200)
        w = randword(r, "NBDHVRYKMSW", k)
        while count_readings(w) <= MAXINT32:   # force it above MaxInt32 (never into the band below)
            w += r.choice("NBDHV")
        yield ["variants", randcase(r, w)]
    # SAMPLED regime (too many readings to ship, few enough letters to build: the code is called, the count and a sample
    # of the list are judged) - this is where a lowered overflow guard shows: 4^11 = 4 194 304, 2*4^11, thorough 4^12
    for w in ["N" * 11, "nNnNnNnNnNnr"] + (["N" * 12, "bB" * 7] if tier == "thorough" else []):
        yield ["variants", w]
    # deliberately beyond the memory budget yet below MaxInt32: the harness must not call the code (reply too-large, not judged)
    for w in ["N" * 13, "N" * 15, "nB" * 7]:
        yield ["variants", w]
    # out-of-domain probes (not judged; model drift is reported only as information)
    for w in ["U", "u", "ACGU", "X", "acgtz", "A-C", "AC GT", "1"]:
        yield ["revcomp", w]
        yield ["variants", w]

TECHNIQUE = "Lean 4 proof over a model whose lookup tables are regenerated from the code; decide on the full tables, induction over strings; differential correspondence"
LEVEL_TEXT = ("Kernel-checked theorems for strings of every length over the 15 codes in either case: rc_length, rc_case (lower and upper), "
              "rc_eq_reverse_of_complement and palindromic_iff (both hold by definition of the model: Go's ReverseComplement IS map-then-fill-backwards "
              "and IsPalindromic IS s == ReverseComplement(s)), rc_rc, rc_append, rc_spec, variants_concrete, variants_rc. The expansion clause is "
              "variants_exact for inputs with at most MaxInt32 readings (the guard of the code) and variants_too_many (an error, never an empty or "
              "partial list) above. The judge's predicates are proved equal to the theorems' statements (isExpansion_iff, judge_allDistinct_iff, "
              "inDomain_iff, variants_pass_judge). The two lookup tables the theorems rest on are re-extracted from the compiled "
              "code over the whole rune domain on every run and the table lemmas are re-decided, so a changed table entry "
              "breaks a proof obligation; the three algorithms (reverse, map, odometer product) are tied by correspondence "
              "(exhaustive to length 5 / 3 mixed case / 4 for expansion in the thorough tier, random to 10^4 letters, expansions to 10^5 "
              "(thorough 2*10^6) readings), including output order.")
LEVEL_NOTE = ("Trusted: Lean kernel; extractor and correspondence harness; the IUPAC code-set spec typed by hand; "
              "Go's strings.Map / range / ToUpper modelled on ASCII only.")

HARNESS_BIN = "run-seq"
EXTRACT_BINS = ["extract-seq"]

# the same requests executed 8 at a time in concurrent goroutines (check: PARALLEL / harness: VERIF_PAR)
PARALLEL = {"quick": {"par": 8, "max_cases": 4000}, "thorough": {"par": 8, "max_cases": 40000, "race": True}}
