"""C12 — least rotation."""
from common import *
import itertools

RULE = ("exhaustive: every word over {a,b} to length L2, {a,b,c} to length L3, ACGT to length L4 (and the empty string), every byte string over "
        "{00,09,41,5c,61,7f,80,c3,ff} to length 4 (thorough: over the first seven to length 6); random / periodic / mixed-case byte strings (hex-encoded, "
        "all 256 values) to 3000 bytes and a few up to MAXLEN; "
        "then random, periodic (powers), near-periodic (a power with one letter changed) and Fibonacci words up to MAXLEN; "
        "exact powers u^m just above 2^16, 2^17 and near 10^6 letters (period 1, short and long periods, rotated, and with one letter changed) in BOTH tiers; "
        "every rotation of a sample of words is also submitted (canonicalisation clause). non-trivial = length >= 2 and not a "
        "single repeated letter; distinct by case text")
EXHAUSTIVE = {"quick": False, "thorough": True}
TRUSTED_BASE = ["Spec/Rotation.lean: arg-min over all rotations (quadratic) judges inputs up to 1500 letters; longer inputs are judged "
                "against the model's value, which Props/C12Booth.booth_least proves equal to the arg-min for every string (so there "
                "the verdict rests on the Lean compiler executing the proved definition faithfully). The independent two-pointer "
                "algorithm is a self-test only: it is compared with the spec value on EVERY input and a disagreement is a broken "
                "obligation of the check (class selftest-fail, reported through corr), never a property verdict",
                "byte strings are submitted hex-encoded (rotatehex) and decoded to code points of the same value, so the model's code-point order is Go's byte order; text cases (rotate) are ASCII"]
ASSUMPTIONS = ["a byte is modelled as the code point of the same value"]
PARTIAL = []
PROOF_MODULES = ["PolyVerif.Props.C12", "PolyVerif.Props.C12Booth"]
TIMEOUT_MS = 60000

def fib(n):
    a, b = "a", "ab"
    while len(b) < n:
        a, b = b, b + a
    return b[:n]

def cases(seed, tier):
    r = rng(seed, "C12")
    L2, L3, L4 = (12, 8, 6) if tier == "quick" else (20, 13, 11)
    yield ["rotate", ""]
    for w in words("ab", L2, 1): yield ["rotate", w]
    for w in words("abc", L3, 1): yield ["rotate", w]
    for w in words("ACGT", L4, 1): yield ["rotate", w]
    # arbitrary bytes (the property says "all byte strings"): high bytes, NUL, invalid UTF-8, mixed case
    def hx(bs): return "".join("%02x" % b for b in bs)
    byte_alpha = [0x00, 0x09, 0x41, 0x5c, 0x61, 0x7f, 0x80, 0xc3, 0xff]
    Lb = 4 if tier == "quick" else 6
    for n in range(1, Lb + 1):
        for t in itertools.product(byte_alpha[:7] if n > 4 else byte_alpha, repeat=n):
            yield ["rotatehex", hx(t)]
    maxlen = 20000 if tier == "quick" else 1000000
    nbytes = 300 if tier == "quick" else 5000
    nlong = 8 if tier == "quick" else 60      # byte strings that follow maxlen (all 256 values, high bytes, mixed case)
    for it in range(nbytes + nlong):
        k = loglen(r, 2, 3000) if it < nbytes else loglen(r, 3000, maxlen)
        kind = r.random()
        if kind < 0.4:
            bs = [r.randrange(256) for _ in range(k)]
        elif kind < 0.7:   # periodic over a few bytes incl. high ones
            base = [r.choice([0x00, 0x7f, 0x80, 0xfe, 0xff, 0x41, 0x61]) for _ in range(r.randint(1, 6))]
            bs = (base * (k // len(base) + 1))[:k]
            if r.random() < 0.5: bs[r.randrange(k)] = r.randrange(256)
        else:              # mixed-case letters (upper < lower in byte order)
            bs = [ord(r.choice("ACGTacgt")) for _ in range(k)]
        yield ["rotatehex", hx(bs)]
    for w in ["Ba", "aA", "Aa", "ACGTacgt", "acgtACGT", "aabaaAaabaab"]:
        for kk in range(len(w)):
            yield ["rotate", w[kk:] + w[:kk]]
    n = 200 if tier == "quick" else 1500
    # index width: doubled length above 2^16 (and 2^17) also in the quick tier
    for L in [32769, 40000, 70000]:
        w = fib(L); k = r.randrange(L)
        yield ["rotate", w[k:] + w[:k]]
        yield ["rotate", randword(r, "ACGT", L)]
    yield ["rotatehex", hx([r.choice([0x41, 0x61, 0x80, 0xff]) for _ in range(33000)])]
    # exact powers u^m (m >= 2) just above 2^16, 2^17 and near 10^6 letters - period 1, short and long periods -
    # each also rotated, and with one letter changed (the quantifier names powers up to 10^6 characters)
    def power_at_least(u, total): return u * (-(-total // len(u)))
    pw = []
    for total in [65536, 131072]:
        for u in ["a", "TA", "GATTACA", "ACGTTGCA", randword(r, "ACGT", 13), randword(r, "ab", 1000),
                  randword(r, "ACGT", total // 3 + 1), randword(r, "ACGT", total // 2)]:
            pw.append(power_at_least(u, total))
    for u in ["a", "TA", "GATTACA", randword(r, "ACGT", 500000)]:
        pw.append(power_at_least(u, 1000000))
    for i, w in enumerate(pw):
        k = r.randrange(len(w))
        yield ["rotate", w if i % 2 == 0 else w[k:] + w[:k]]
        if i % 3 == 0:
            p = r.randrange(len(w))
            yield ["rotate", w[:p] + ("C" if w[p] != "C" else "G") + w[p + 1:]]
    yield ["rotatehex", hx(power_at_least([0x80, 0xff, 0x41], 65536))]
    for i in range(n):
        kind = r.choice(["rand", "power", "near", "fib", "rots"])
        if kind == "rand":
            yield ["rotate", randword(r, r.choice(["ab", "ACGT", "ACGTRYKMSWBDHVN"]), loglen(r, 2, maxlen))]
        elif kind == "power":
            base = randword(r, r.choice(["ab", "ACGT"]), r.randint(1, 12))
            yield ["rotate", base * max(1, loglen(r, 2, maxlen) // len(base))]
        elif kind == "near":
            base = randword(r, r.choice(["ab", "ACGT"]), r.randint(1, 12))
            w = list(base * max(2, loglen(r, 2, maxlen) // len(base)))
            p = r.randrange(len(w)); w[p] = r.choice("abACGT")
            yield ["rotate", "".join(w)]
        elif kind == "fib":
            w = fib(loglen(r, 2, maxlen))
            k = r.randrange(len(w))
            yield ["rotate", w[k:] + w[:k]]
        else:
            w = randword(r, "ACGT", r.randint(2, 40))
            for k in range(len(w)):
                yield ["rotate", w[k:] + w[:k]]
    if tier == "thorough":
        for w in ["a" * 1000000, "ab" * 500000, fib(1000000), "a" * 999999 + "b", "b" + "a" * 999999]:
            yield ["rotate", w]

TECHNIQUE = "Lean 4 proof about the arg-min spec and about a statement-by-statement model of the Booth loop; differential correspondence (exhaustive on small alphabets)"
LEVEL_TEXT = ("Proved in Lean for strings of every length (Props/C12): the arg-min specification returns a rotation of its input, no "
              "greater than any rotation, and is constant on rotation classes. Proved in Lean for strings of every length (Props/C12Booth, "
              "KMP border-chain + Duval-style loop invariants): the statement-by-statement model of boothLeastRotation / RotateSequence never "
              "indexes out of range, never exhausts its inner-loop fuel, returns the FIRST index of a least rotation, and "
              "rotateSequence s = some (leastRotation s); hence the result is a rotation (same length, a permutation, same cyclic order), "
              "no greater than any rotation, and rotateSequence (rotl k s) = rotateSequence s. The model is tied to "
              "seqhash.RotateSequence by correspondence (exhaustive over {a,b}^<=20, {a,b,c}^<=13, ACGT^<=11 in the thorough tier, "
              "periodic/near-periodic/Fibonacci words to 10^6) and every real output is also judged against the arg-min spec.")
LEVEL_NOTE = "Trusted: Lean kernel; harness + polymodel; a byte is modelled as the code point of the same value; for inputs > 1500 letters the expected value is computed by the compiled model (proved equal to the arg-min; the Lean compiler is trusted there), cross-checked by the unproved two-pointer algorithm as a self-test."

HARNESS_BIN = "run-seq"
EXTRACT_BINS = ["extract-seq"]

# the same requests executed 8 at a time in concurrent goroutines (check: PARALLEL / harness: VERIF_PAR)
PARALLEL = {"quick": {"par": 8, "max_cases": 4000}, "thorough": {"par": 8, "max_cases": 40000, "race": True}}
