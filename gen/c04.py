"""C04 — seqhash invariance."""
from common import *

from seqfam import structured, long_tie

RULE = ("pairs of Hash calls on related inputs, the second input computed by the Lean side (rotl k s / revComp s / recase / U->T spelling). "
        "Exhaustive families: rot = every word of ACGT^<=L x EVERY rotation offset x both strandedness values (DNA); strand = every word of "
        "ACGT^<=L x both topologies; the same two families over the 15 IUPAC codes ^<=L15 (every offset, both strandedness values / both "
        "topologies); every word of ACGU^<=LR in random case under RNA (every offset); case = every word over aAcCgGtTuU ^<=LC x {DNA,RNA} x "
        "masks (all-upper, all-lower, alternating) - so lower->mixed pairs and u/U under both types; rna / rnacp (case-preserving DNA spelling) = "
        "every word of ACGTU^<=LN in random case x 4 flag pairs (mixed T/U spellings). thorough: L=9, L15=4, LR=6, LC=4, LN=5 (the bounds the "
        "property states); quick: L=5, L15=2, LR=3, LC=3, LN=4. Then random IUPAC / RNA (with U) / Z / protein (both cases) strings, log-uniform "
        "length to MAXLEN (3000 quick, 10^5 thorough), random offsets and masks, and STRUCTURED long inputs (gen/seqfam.py: reverse-palindromes, "
        "near-palindromes differing near the middle / an end, odd length with (non-)self-complementary centre, periodic and near-periodic words, "
        "letterwise self-complementary ambiguity words, rotations of these) at lengths 10..5000 for the strand and rotation clauses, and LONG "
        "tie families (seqfam.long_tie: the two strands / the two best rotations agree on 4096, 8192, 16384, 40000 letters (quick) and also on "
        "65536, 131072, 300000, 499000 letters (thorough) and differ only after them; powers of long words; near-periodic words with one late "
        "change) at lengths to 10^5 (quick) / 10^6 (thorough). EXHAUSTIVE (thorough) refers to the rotation and strand clauses over ACGT^<=9 and "
        "IUPAC15^<=4 under type DNA (the families the property names); the case clause is swept to length 4 and the RNA/DNA clause to length 5, "
        "RNA rotation/strand to ACGU^<=6 with one random flag per case, PROTEIN is sampled only. "
        "non-trivial = the two inputs differ (or an RNA/DNA case) and length >= 2; distinct by case text")
EXHAUSTIVE = {"quick": False, "thorough": True}
TRUSTED_BASE = ["Base/Blake3.lean instantiates the digest parameter for the correspondence only; it is compared with the vendored Go BLAKE3 "
                "only through seqhash.Hash itself (every case compares the real hash with the model's hash); there is no separate digest op",
                "the clauses are proved over the arg-min least rotation and transferred to the Booth-loop model by C12 (Props/C12Booth.booth_least): model_hash_* in Props/C04",
                "strand clause: the partner sent to the code is the model's revComp (the code's own regenerated complement table); that it is the "
                "biological other strand is C11 (table_compl_is_codeset_complement) and is re-checked by the judge on every strand case "
                "against the independent code-set complement (Driver.C04.specRc)"]
ASSUMPTIONS = ["the theorems hold for every digest function; nothing about BLAKE3 is assumed",
               "non-ASCII input is rejected by the first statement of Hash (modelled; Props/C05 reject_*); accepted input is ASCII, where the model's "
               "upper-casing is Go's strings.ToUpper",
               "strand clause: the normalised sequence is over the 15 IUPAC codes (U only under RNA) - the property's own quantifier, hypothesis "
               "Iupac15 (norm ty s) of hash_strand; outside it (U under DNA, Z) strand invariance really fails in the code (same root cause as known "
               "finding C05-dna-u-strand); a few such cases (random words with U under DNA / Z) are sent for correspondence but not judged"]
PARTIAL = []

PROT = "ACDEFGHIKLMNPQRSTVWYUO*BXZ"
FLAGS = [("true", "true"), ("true", "false"), ("false", "true"), ("false", "false")]

def _short_cases(seed, tier):
    r = rng(seed, "C04")
    quick = tier == "quick"
    L, L15, LR, LC, LN = (5, 2, 3, 3, 4) if quick else (9, 4, 6, 4, 5)
    # --- the empty sequence is accepted by Hash under every type and flag pair: all clauses must hold for it too
    for ty in ("DNA", "RNA", "PROTEIN"):
        for ds in (("true", "false") if ty != "PROTEIN" else ("false",)):
            for k in ("0", "1", "7"):
                yield ["rot", "", ty, ds, k]
        for circ in ("true", "false"):
            if ty != "PROTEIN":
                yield ["strand", "", ty, circ]
            yield ["case", "", "ul", ty, circ, "false"]
    for circ in ("true", "false"):
        for ds in ("true", "false"):
            yield ["rna", "", circ, ds]
    # --- exhaustive: rotation and strand clauses
    for w in words(ACGT, L, 1):
        for k in range(len(w)):
            yield ["rot", w, "DNA", "true", str(k)]
            yield ["rot", w, "DNA", "false", str(k)]
        yield ["strand", w, "DNA", "true"]
        yield ["strand", w, "DNA", "false"]
    for w in words(IUPAC15, L15, 1):
        yield ["strand", w, "DNA", "true"]
        yield ["strand", w, "DNA", "false"]
        for k in range(len(w)):
            yield ["rot", w, "DNA", "true", str(k)]
            yield ["rot", w, "DNA", "false", str(k)]
    for w in words("ACGU", LR, 1):
        v = randcase(r, w)
        yield ["strand", v, "RNA", r.choice(["true", "false"])]
        for k in range(len(w)):
            yield ["rot", v, "RNA", r.choice(["true", "false"]), str(k)]
    # --- exhaustive: case clause (mixed-case starting words, u/U under both types) and RNA/DNA clause (mixed T/U)
    i = 0
    for w in words("aAcCgGtTuU", LC, 1):
        for ty in ("DNA", "RNA"):
            for mask in ("u", "l", "ul"):
                c, d = FLAGS[i % 4]; i += 1
                yield ["case", w, mask, ty, c, d]
    for w in words("ACGTU", LN, 1):
        v = randcase(r, w)
        for (c, d) in FLAGS:
            yield ["rna", v, c, d]
        c, d = FLAGS[i % 4]; i += 1
        yield ["rnacp", v, c, d]
    # --- random
    maxlen = 3000 if quick else 100000
    n = 600 if quick else 4000
    for _ in range(n):
        k = loglen(r, 1, maxlen)
        kind = r.choice(["rot", "rotu", "strand", "case", "casez", "rna", "rnacp", "rotp", "rna2"])
        if kind == "rot":
            w = randcase(r, randword(r, IUPAC15 + "Z", k))
            yield ["rot", w, r.choice(["DNA", "RNA"]), r.choice(["true", "false"]), str(r.randrange(0, 2 * k + 1))]
        elif kind == "rotu":      # U in the word: RNA spelling, and U under DNA (accepted; in-domain for rotation)
            w = randcase(r, randword(r, "ACGU" + r.choice(["", "T", "RYN", "Z"]), k))
            yield ["rot", w, r.choice(["DNA", "RNA"]), r.choice(["true", "false"]), str(r.randrange(0, 2 * k + 1))]
        elif kind == "rotp":
            w = randword(r, PROT, k)
            yield ["rot", r.choice([w, w.lower(), randcase(r, w)]), "PROTEIN", "false", str(r.randrange(0, 2 * k + 1))]
        elif kind == "strand":
            ty = r.choice(["DNA", "RNA"])
            w = randcase(r, randword(r, IUPAC15 + ("U" if ty == "RNA" else ""), k))
            yield ["strand", w, ty, r.choice(["true", "false"])]
        elif kind in ("case", "casez"):
            ty = r.choice(["DNA", "RNA", "PROTEIN"])
            alpha = PROT if ty == "PROTEIN" else (IUPAC15 + ("UZ" if kind == "casez" else "U" if ty == "RNA" else ""))
            w = randword(r, alpha, k)
            w = r.choice([w, w.lower(), randcase(r, w)])        # the starting word is not always upper case
            c, d = r.choice(FLAGS)
            yield ["case", w, randword(r, "ul", r.randint(1, 7)), ty, c, "false" if ty == "PROTEIN" else d]
        else:
            alpha = {"rna": "ACGU", "rna2": "ACGURYKMSWBDHVN", "rnacp": "ACGTU"}[kind]
            w = randcase(r, randword(r, alpha + r.choice(["", "T"]), k))
            c, d = r.choice(FLAGS)
            yield ["rnacp" if kind == "rnacp" else "rna", w, c, d]
    # --- structured long inputs: the strand / rotation decision is taken deep inside the word
    m = 250 if quick else 2500
    for _ in range(m):
        k = loglen(r, 10, 5000)
        fam, w = structured(r, k, r.choice(["ACGT", "ACGT", "AT", "ACGTRYSWKMBDHVN"]))
        ty = r.choice(["DNA", "DNA", "RNA"])
        if ty == "RNA" and r.random() < 0.5:
            w = w.replace("T", "U")
        if r.random() < 0.3:
            w = randcase(r, w)
        yield ["strand", w, ty, "false"]
        yield ["strand", w, ty, "true"]
        yield ["rot", w, ty, r.choice(["true", "false"]), str(r.randrange(0, len(w) + 1))]
    # --- strand cases OUTSIDE the clause's quantifier (U under DNA, Z): sent for correspondence only (judge = skip); the partner
    # contains A for U and the zero rune for Z
    for _ in range(12 if quick else 120):
        w = randcase(r, randword(r, "ACGT" + r.choice(["U", "Z", "UZ"]), loglen(r, 1, 300)))
        yield ["strand", w, r.choice(["DNA", "DNA", "RNA"]), r.choice(["true", "false"])]
    # rejected inputs (outside the property's quantifier: not judged)
    for w, ty in [("ACGX", "DNA"), ("ACGT", "dna"), ("MKV", "PROTEIN")]:
        yield ["strand", w, ty, "true"]

def _long_cases(seed, tier):
    """LONG structured inputs: the two strands / the two best rotations agree on `tie` letters (4096, 8192, 65536, ...) and differ
    only after them; long periods; near-periodic with one late change.  Lengths to 10^5 (quick) / 10^6 (thorough)."""
    r = rng(seed, "C04-long")
    quick = tier == "quick"
    ties = [4096, 8192, 16384, 40000] if quick else [4096, 8192, 16384, 65536, 65536, 131072, 300000, 499000]
    per = 4 if quick else 6
    for tie in ties:
        for _ in range(per):
            t2 = tie + r.choice([0, 0, 1, -1, 7])
            fam, w, k = long_tie(r, t2, r.choice(["ACGT", "ACGT", "ACGTRYSWKMBDHVN"]))
            ty = r.choice(["DNA", "DNA", "RNA"])
            if ty == "RNA" and r.random() < 0.5:
                w = w.replace("T", "U")
            if r.random() < 0.2:
                w = w.lower()
            yield ["strand", w, ty, "false"]
            yield ["strand", w, ty, "true"]
            yield ["rot", w, ty, r.choice(["true", "false"]), str(k)]

def cases(seed, tier):
    """the long cases are spread through the stream (the check cuts the stream into contiguous shards run in parallel)"""
    longs = _long_cases(seed, tier)
    step = 300 if tier == "quick" else 50000
    n = 0
    for c in _short_cases(seed, tier):
        yield c
        n += 1
        if n % step == 0:
            nxt = next(longs, None)
            if nxt is not None:
                yield nxt
    for c in longs:
        yield c

TECHNIQUE = "Lean 4 proof (rotation / strand / case / RNA-DNA laws of the hash model for every digest function); differential correspondence with a Lean BLAKE3"
LEVEL_TEXT = ("The four invariance clauses are theorems about the hash model for every digest function, every accepted sequence of any "
              "length and every offset (Props/C04: first over the arg-min least rotation, then transferred to the Booth-loop model through C12's "
              "booth_least, model_hash_*). The model (Booth loop + "
              "BLAKE3 written in Lean) is tied to seqhash.Hash by correspondence on every generated pair, and every pair of real outputs is "
              "judged by the invariance relation itself.")
LEVEL_NOTE = "Trusted: Lean kernel; harness + polymodel; BLAKE3 is a parameter of the theorems (tested, not verified); ASCII input."

HARNESS_BIN = "run-seq"
EXTRACT_BINS = ["extract-seq"]

# the same requests executed 8 at a time in concurrent goroutines (check: PARALLEL / harness: VERIF_PAR)
PARALLEL = {"quick": {"par": 8, "max_cases": 4000}, "thorough": {"par": 8, "max_cases": 40000, "race": True}}
