"""C04 — seqhash invariance."""
from common import *

RULE = ("pairs of Hash calls on related inputs, the second input computed by the Lean side (rotl k s / revComp s / recase / U->T): "
        "exhaustive over ACGT^<=L x every rotation offset x both strandedness values, ACGT^<=L x both topologies for the strand clause, "
        "IUPAC15^<=L15; random IUPAC / RNA / protein strings (log-uniform length to MAXLEN) with random offsets and case masks. "
        "non-trivial = the two inputs differ (or the RNA/DNA clause) and length >= 2; distinct by case text")
EXHAUSTIVE = {"quick": False, "thorough": True}
TRUSTED_BASE = ["Base/Blake3.lean instantiates the digest parameter for the correspondence only; it is compared with the vendored Go BLAKE3 on every run",
                "the clauses are proved over the arg-min least rotation and transferred to the Booth-loop model by C12 (Props/C12Booth.booth_least): model_hash_* in Props/C04"]
ASSUMPTIONS = ["inputs are ASCII (the model's upper-casing is Go's strings.ToUpper only on ASCII; the theorems themselves need no ASCII hypothesis)",
               "the theorems hold for every digest function; nothing about BLAKE3 is assumed",
               "strand clause: the normalised sequence is over the 15 IUPAC codes (U only under RNA) - the property's own quantifier, hypothesis Iupac15 (norm ty s) of hash_strand"]
PARTIAL = []

PROT = "ACDEFGHIKLMNPQRSTVWYUO*BXZ"

def cases(seed, tier):
    r = rng(seed, "C04")
    L, L15 = (5, 2) if tier == "quick" else (7, 3)
    for w in words(ACGT, L, 1):
        for k in range(len(w)):
            for ds in ("true", "false"):
                yield ["rot", w, "DNA", ds, str(k)]
        for circ in ("true", "false"):
            yield ["strand", w, "DNA", circ]
    for w in words(IUPAC15, L15, 1):
        for circ in ("true", "false"):
            yield ["strand", w, "DNA", circ]
        yield ["rot", w, "DNA", "true", str(len(w) // 2)]
    maxlen = 3000 if tier == "quick" else 100000
    n = 300 if tier == "quick" else 3000
    for _ in range(n):
        k = loglen(r, 1, maxlen)
        kind = r.choice(["rot", "strand", "case", "rna", "rotp", "rna2"])
        if kind == "rot":
            w = randcase(r, randword(r, IUPAC15 + "Z", k))
            yield ["rot", w, r.choice(["DNA", "RNA"]), r.choice(["true", "false"]), str(r.randrange(0, 2 * k + 1))]
        elif kind == "rotp":
            yield ["rot", randword(r, PROT, k), "PROTEIN", "false", str(r.randrange(0, k + 1))]
        elif kind == "strand":
            ty = r.choice(["DNA", "RNA"])
            w = randcase(r, randword(r, IUPAC15 + ("U" if ty == "RNA" else ""), k))
            yield ["strand", w, ty, r.choice(["true", "false"])]
        elif kind == "case":
            ty = r.choice(["DNA", "RNA", "PROTEIN"])
            w = randword(r, PROT if ty == "PROTEIN" else IUPAC15, k)
            yield ["case", w, randword(r, "ul", r.randint(1, 7)), ty, r.choice(["true", "false"]), "false" if ty == "PROTEIN" else r.choice(["true", "false"])]
        else:
            w = randcase(r, randword(r, "ACGU" if kind == "rna" else "ACGURYKMSWBDHVN", k))
            yield ["rna", w, r.choice(["true", "false"]), r.choice(["true", "false"])]
    # rejected inputs (outside the property's quantifier: not judged)
    for w, ty in [("ACGX", "DNA"), ("ACGT", "dna"), ("MKV", "PROTEIN")]:
        yield ["strand", w, ty, "true"]

TECHNIQUE = "Lean 4 proof (rotation / strand / case / RNA-DNA laws of the hash model for every digest function); differential correspondence with a Lean BLAKE3"
LEVEL_TEXT = ("The four invariance clauses are theorems about the hash model for every digest function, every accepted sequence of any "
              "length and every offset (Props/C04), stated over the arg-min least rotation (i.e. modulo C12). The model (Booth loop + "
              "BLAKE3 written in Lean) is tied to seqhash.Hash by correspondence on every generated pair, and every pair of real outputs is "
              "judged by the invariance relation itself.")
LEVEL_NOTE = "Trusted: Lean kernel; harness + polymodel; BLAKE3 is a parameter of the theorems (tested, not verified); ASCII input."

HARNESS_BIN = "run-seq"
EXTRACT_BINS = ["extract-seq"]
