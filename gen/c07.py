"""C07 — Optimized coding sequences translate back to the requested protein."""
from common import *

# Only used to AIM the inputs (which letters a table can encode); the verdicts never use it.
AAS = {
    1: "FFLLSSSSYY**CC*WLLLLPPPPHHQQRRRRIIIMTTTTNNKKSSRRVVVVAAAADDEEGGGG", 2: "FFLLSSSSYY**CCWWLLLLPPPPHHQQRRRRIIMMTTTTNNKKSS**VVVVAAAADDEEGGGG",
    3: "FFLLSSSSYY**CCWWTTTTPPPPHHQQRRRRIIMMTTTTNNKKSSRRVVVVAAAADDEEGGGG", 4: "FFLLSSSSYY**CCWWLLLLPPPPHHQQRRRRIIIMTTTTNNKKSSRRVVVVAAAADDEEGGGG",
    5: "FFLLSSSSYY**CCWWLLLLPPPPHHQQRRRRIIMMTTTTNNKKSSSSVVVVAAAADDEEGGGG", 6: "FFLLSSSSYYQQCC*WLLLLPPPPHHQQRRRRIIIMTTTTNNKKSSRRVVVVAAAADDEEGGGG",
    9: "FFLLSSSSYY**CCWWLLLLPPPPHHQQRRRRIIIMTTTTNNNKSSSSVVVVAAAADDEEGGGG", 10: "FFLLSSSSYY**CCCWLLLLPPPPHHQQRRRRIIIMTTTTNNKKSSRRVVVVAAAADDEEGGGG",
    11: "FFLLSSSSYY**CC*WLLLLPPPPHHQQRRRRIIIMTTTTNNKKSSRRVVVVAAAADDEEGGGG", 12: "FFLLSSSSYY**CC*WLLLSPPPPHHQQRRRRIIIMTTTTNNKKSSRRVVVVAAAADDEEGGGG",
    13: "FFLLSSSSYY**CCWWLLLLPPPPHHQQRRRRIIMMTTTTNNKKSSGGVVVVAAAADDEEGGGG", 14: "FFLLSSSSYYY*CCWWLLLLPPPPHHQQRRRRIIIMTTTTNNNKSSSSVVVVAAAADDEEGGGG",
    16: "FFLLSSSSYY*LCC*WLLLLPPPPHHQQRRRRIIIMTTTTNNKKSSRRVVVVAAAADDEEGGGG", 21: "FFLLSSSSYY**CCWWLLLLPPPPHHQQRRRRIIMMTTTTNNNKSSSSVVVVAAAADDEEGGGG",
    22: "FFLLSS*SYY*LCC*WLLLLPPPPHHQQRRRRIIIMTTTTNNKKSSRRVVVVAAAADDEEGGGG", 23: "FF*LSSSSYY**CC*WLLLLPPPPHHQQRRRRIIIMTTTTNNKKSSRRVVVVAAAADDEEGGGG",
    24: "FFLLSSSSYY**CCWWLLLLPPPPHHQQRRRRIIIMTTTTNNKKSSSKVVVVAAAADDEEGGGG", 25: "FFLLSSSSYY**CCGWLLLLPPPPHHQQRRRRIIIMTTTTNNKKSSRRVVVVAAAADDEEGGGG",
    26: "FFLLSSSSYY**CC*WLLLAPPPPHHQQRRRRIIIMTTTTNNKKSSRRVVVVAAAADDEEGGGG", 27: "FFLLSSSSYYQQCCWWLLLLPPPPHHQQRRRRIIIMTTTTNNKKSSRRVVVVAAAADDEEGGGG",
    28: "FFLLSSSSYYQQCCWWLLLLPPPPHHQQRRRRIIIMTTTTNNKKSSRRVVVVAAAADDEEGGGG", 29: "FFLLSSSSYYYYCC*WLLLLPPPPHHQQRRRRIIIMTTTTNNKKSSRRVVVVAAAADDEEGGGG",
    30: "FFLLSSSSYYEECC*WLLLLPPPPHHQQRRRRIIIMTTTTNNKKSSRRVVVVAAAADDEEGGGG", 31: "FFLLSSSSYYEECCWWLLLLPPPPHHQQRRRRIIIMTTTTNNKKSSRRVVVVAAAADDEEGGGG",
    33: "FFLLSSSSYYY*CCWWLLLLPPPPHHQQRRRRIIIMTTTTNNKKSSSKVVVVAAAADDEEGGGG"}
IDS = sorted(AAS)
B = "TCAG"
CODONS = [x + y + z for x in B for y in B for z in B]

def by_aa(i):
    d = {}
    for c, a in zip(CODONS, AAS[i]):
        d.setdefault(a, []).append(c)
    return d

def encodable_letters(i, cds):
    """letters with a codon above the 10 % share after re-weighting table i with cds (generator-side aim only)"""
    cnt = {}
    for j in range(0, len(cds) - 2, 3):
        cnt[cds[j:j + 3]] = cnt.get(cds[j:j + 3], 0) + 1
    out = []
    for a, cs in by_aa(i).items():
        tot = sum(cnt.get(c, 0) for c in cs)
        if any(10 * cnt.get(c, 0) > tot for c in cs):
            out.append(a)
    return "".join(sorted(out))

def counted_table(i, cds):
    """table i re-weighted with the codon counts of cds, as a text table (what OptimizeTable would produce)"""
    cnt = {}
    for j in range(0, len(cds) - 2, 3):
        cnt[cds[j:j + 3]] = cnt.get(cds[j:j + 3], 0) + 1
    return "ATG/TAA,TAG/" + ";".join(a + ":" + ",".join("%s=%d" % (c, cnt.get(c, 0)) for c in cs) for a, cs in by_aa(i).items())

def eligible_weights(i, cds):
    """letter -> [(codon, count)] of the codons above the 10 % share (generator-side aim only)"""
    cnt = {}
    for j in range(0, len(cds) - 2, 3):
        cnt[cds[j:j + 3]] = cnt.get(cds[j:j + 3], 0) + 1
    out = {}
    for a, cs in by_aa(i).items():
        tot = sum(cnt.get(c, 0) for c in cs)
        el = [(c, cnt.get(c, 0)) for c in cs if 10 * cnt.get(c, 0) > tot]
        if el:
            out[a] = el
    return out

def unequal_letters(i, cds):
    """letters with at least two eligible codons of different weight: where a frequency test says something about WEIGHTING"""
    return [a for a, el in eligible_weights(i, cds).items() if len(set(w for _, w in el)) >= 2]

def biased_cds(r, i, n):
    """n codons; each amino acid gets its own skewed codon preference, some amino acids are left out"""
    d = by_aa(i)
    aas = [a for a in d if r.random() < 0.9]
    if not aas:
        aas = list(d)
    pref = {a: [r.choice([0, 1, 1, 3, 10, 30]) for _ in d[a]] for a in aas}
    for a in aas:
        if sum(pref[a]) == 0:
            pref[a][0] = 1
    return "".join(r.choices(d[a], pref[a])[0] for a in r.choices(aas, k=n))

RULE = ("opt: all 25 default tables x (every letter once; random proteins of length 1..2000 over the table's letters, length "
        "log-uniform; each residue at each end) ; tables re-weighted in the harness (deep copy + OptimizeTable) from biased random "
        "coding sequences x proteins over the letters that keep a codon above the share; hand-written text tables (ten equal synonyms, "
        "zero weights, a single dominant codon, the exact 10 % boundary); unencodable residues: lower case, J/B/X/Z/U/O, digits, "
        "'*' under codes 27/28/31, letters outside ASCII whose code point collides with an encodable letter modulo 128 / 256 / 65536, "
        "letters whose synonyms all have weight zero, at the first / a middle / the last position; "
        "rp: random.ProteinSequence for lengths -1..6 and random lengths to 2000, random seeds, all 25 tables and re-weighted ones; "
        "hist: one private table instance through optimize / re-weight in place / optimize again / swap two entries' letters / translate "
        "(every step judged against the table as it is at that moment); proteins around block sizes (1023..4097; 255..65537 thorough); "
        "pick: weightedrand.NewChooser + Pick run directly on fixed and random choice lists (1..30 choices, equal and distinct weights, "
        "weights to 10^12) x 150 (quick) / 400 (thorough) seeds, compared pointwise with the model; replay: single Optimize calls on "
        "proteins of 40..400 residues under default and count-weighted tables, replayed exactly on the model from the recovered clock "
        "seed; freqmix (statistical): one mixed protein holding every letter of the table, every letter's codon counts judged, default, "
        "re-weighted and hand-written tables; pairs (statistical): counts of adjacent codon pairs against the product of the shares; "
        "union (statistical): per table, a protein with every letter 12 times, 40 calls; freq (statistical): 10^6 "
        "draws for one letter with unequally weighted eligible codons, band 8 sigma + 1. Out of domain (correspondence only): negative weights (rand.Intn panics), "
        "tables listing a triplet twice. non-trivial = protein longer than one residue; distinct by case text")
EXHAUSTIVE = {"quick": False, "thorough": False}
TRUSTED_BASE = ["harness op pick reads weightedrand.Chooser's unexported fields data/totals/max with reflect and reports the module "
                "version from the build info (v0.2.1 expected; another version makes the pick cases out of domain, tagged loudly)",
                "harness op optreplay: seed search over the clock window, picks replayed in Go with the choosers the Lean model sent; the "
                "Lean model is then run on the reported draws and must return the real DNA",
                "the float64 share test `float64(w)/float64(sum) > 0.10` equals the exact test 10*w > sum (for |w|, |sum| < 2^50); "
                "not proved (Lean's Float is opaque), cross-checked against Lean's binary64 on every codon of every table of the run",
                "math/rand: rand.Intn(max) takes every value of [0,max) with equal probability; the draws are explicit arguments of the model",
                "sort.Slice returns some permutation of its input (the theorems hold for every permutation)",
                "integer overflow of weights / running totals is not modelled (weights below 2^62)",
                "Model/CodonTranslate.lean and Spec/Ncbi.lean as in C06"]
ASSUMPTIONS = ["JUDGED tables = the property's quantifier: the 25 default tables, tables re-weighted in the harness, and text tables that are a "
               "re-weighted default written out (the genetic code of one of the 25 tables, non-negative weights, every usage total <= 2^31-1: "
               "codon counts of a sequence, representable where `int` has 32 bits). Hand-written variations (merged entries = ten synonyms, "
               "swapped letters, totals of 10^10..10^14 at the float boundary, negative weights, repeated triplets) are DRIFT PROBES: compared "
               "with the model, never judged, so an implementation that validates and rejects them raises no violation. The theorems cover "
               "more (every WF table, totals below 2^50)",
               "theorem hypothesis `WF t`: the table lists each of the 64 codons exactly once, weights are non-negative, and the usage "
               "total of every amino acid is below 2^50 — the range in which the exact share test 10*w > sum has the truth value of the "
               "code's float64 test (first disagreement near 2^51: shareTest 2^51 (10*2^51-1)); tables outside are out of domain for "
               "the judge as well",
               "'each requested amino acid has positive usage' is read through the > 10 % rule: an amino acid with positive usage but no "
               "codon above a 10 % share (ten or more equally used synonyms: each share is exactly 1/10, not > 1/10) is UNENCODABLE and "
               "Optimize must return the error (theorem ten_equal_synonyms_unencodable, class unenc-all-below-share); with at most 9 "
               "synonyms positive usage does imply encodable (positive_usage_encodable), and no NCBI code has more than 8 "
               "(default_synonyms_le_8), so inside 'default and re-weighted tables' the two readings coincide",
               "rand.Intn is uniform and successive draws are independent (only the statistical tests speak about it)",
               "default tables are examined in a process in which nobody has re-weighted a shared default table in place "
               "(GetCodonTable(n).OptimizeTable(seq) mutates the package-level table: known finding C08-alias-default); re-weighted "
               "tables are deep copies; every id: case verifies that the table the process holds is the regenerated one",
               "replay cases: the wall clock read by the harness immediately before and after a call brackets the clock value Optimize "
               "seeds with (a margin of 2 microseconds is searched as well)"]
PARTIAL = ["'over many draws each eligible codon is chosen in proportion to its weight': proved as the exact count "
           "(pick_proportional: exactly w(c) of the max equally likely draw values select c, for every order the unstable sort may "
           "leave). Tie to the code: (a) replay cases reproduce whole Optimize outputs on the model from the recovered seed (classes "
           "replay/*/seed-found) - this is the only POINTWISE tie of /repo's picking; (b) pick-lib cases tie the model to the weightedrand "
           "library the harness links, not to /repo's use of it. If Optimize draws from a generator that cannot be recovered (class "
           "replay/*/OWN-GENERATOR-NO-POINTWISE-TIE-statistics-only in the evidence) there is NO pointwise tie and proportionality rests on "
           "the statistical cases alone: freq = 10^6 draws on one letter with unequally weighted eligible codons (band 8 sigma + 1 <= 0.4 "
           "percentage points), freqmix = 5*10^4 (quick) / 2*10^5 (thorough) draws per letter over all letters (<= 1.8 / 0.9 points), "
           "pairs = 5*10^4 / 2*10^5 adjacent pairs. A bias smaller than that resolution is then not detectable. That the real draws are "
           "uniform and independent is an assumption about math/rand in every mode"]
MIN_JUDGED_FRACTION = 0.9

def cases(seed, tier):
    r = rng(seed, "C07")
    thorough = tier == "thorough"
    # ---- default tables
    for i in IDS:
        letters = "".join(sorted(by_aa(i)))
        yield ["opt", "id:%d" % i, letters, "3"]
        for _ in range(4 if not thorough else 20):
            k = loglen(r, 1, 2000)
            yield ["opt", "id:%d" % i, randword(r, letters, k), "2"]
        yield ["union", "id:%d" % i, "".join(r.sample(letters * 12, 12 * len(letters))), "40"]
        for a in letters if thorough else r.sample(letters, 3):
            yield ["opt", "id:%d" % i, a, "4"]
    # ---- re-weighted tables
    for _ in range(60 if not thorough else 600):
        i = r.choice(IDS)
        cds = biased_cds(r, i, r.randint(30, 600))
        spec = "rw:%d:%s" % (i, cds)
        enc = encodable_letters(i, cds)
        if enc:
            yield ["opt", spec, randword(r, enc, loglen(r, 1, 2000 if thorough else 600)), "2"]
            if r.random() < 0.4:
                yield ["union", spec, "".join(r.sample(enc * 12, 12 * len(enc))), "40"]
        bad = [a for a in by_aa(i) if a not in enc]
        if bad and enc:
            w = list(randword(r, enc, r.randint(1, 30)))
            pos = r.choice([0, len(w) // 2, len(w)])
            w.insert(pos, r.choice(bad))
            yield ["opt", spec, "".join(w), "2"]
    # ---- histories on ONE private table instance: optimize, re-weight in place, optimize again, re-letter, ...
    for _ in range(20 if not thorough else 200):
        i = r.choice(IDS)
        letters = "".join(sorted(by_aa(i)))
        steps = ["O:" + randword(r, letters, r.randint(1, 40))]
        for _ in range(r.randint(1, 4)):
            cds = biased_cds(r, i, r.randint(20, 300))
            steps.append("W:" + cds)
            enc = encodable_letters(i, cds) or letters
            steps.append("O:" + randword(r, enc if r.random() < 0.7 else letters, r.randint(1, 60)))
            if r.random() < 0.3:
                steps.append("S:%d,%d" % (r.randrange(0, 64), r.randrange(0, 64)))
                steps.append("O:" + randword(r, enc, r.randint(1, 30)))
            if r.random() < 0.5:
                steps.append("T:" + randword(r, ACGT, r.randint(3, 90)))
        yield ["hist", "id:%d" % i, "3"] + steps
    # ---- proteins around typical block sizes
    for L in ([1023, 1024, 1025, 2048, 2049, 4096, 4097] if not thorough else
              [255, 256, 257, 341, 342, 343, 511, 512, 513, 682, 683, 1023, 1024, 1025, 1026, 1365, 1366, 2047, 2048, 2049, 4095, 4096, 4097, 8192, 8193, 16385, 65537]):
        i = r.choice(IDS)
        yield ["opt", "id:%d" % i, randword(r, "".join(sorted(by_aa(i))), L), "1"]
    # ---- tables with no start / stop codon lists (Optimize only looks at the amino acids)
    # ---- position 0: a protein that STARTS with M (every random protein does) under tables where ATG is not eligible for M
    for _ in range(6 if not thorough else 60):
        i = r.choice(IDS)
        cds = biased_cds(r, i, r.randint(100, 500)).replace("ATG", "")       # no ATG at all: in most codes M is then unencodable
        cds = "".join(c for c in (cds[j:j + 3] for j in range(0, len(cds) - 2, 3)) if c != "ATG")
        enc = encodable_letters(i, cds) or "A"
        yield ["opt", "rw:%d:%s" % (i, cds), "M" + randword(r, enc, r.randint(2, 30)), "3"]
        yield ["rp", str(r.randint(3, 40)), str(r.randrange(0, 10 ** 6)), "rw:%d:%s" % (i, cds)]
    for i in [2, 3, 5, 13, 21]:                                                  # M = ATA or ATG: make ATG rare (share <= 10 %) or absent
        for natg in ([0, 1] if not thorough else [0, 1, 2, 3]):
            cds = biased_cds(r, i, 300)
            cds = "".join(c for c in (cds[j:j + 3] for j in range(0, len(cds) - 2, 3)) if c not in ("ATG", "ATA"))
            cds += "ATA" * 30 + "ATG" * natg
            enc = encodable_letters(i, cds)
            body = "".join(a for a in enc if a != "M") or "M"
            # judged run by run (threshold / error at position 0 like everywhere else); NOT a union case: a letter that
            # occurs once would get too few picks for "every eligible codon is seen"
            yield ["opt", "rw:%d:%s" % (i, cds), "M" + randword(r, body, 20) + "MM", "10"]
            yield ["rp", str(r.randint(3, 40)), str(r.randrange(0, 10 ** 6)), "rw:%d:%s" % (i, cds)]
    # a coding sequence in lower / mixed case re-weights like its upper case
    yield ["opt", "rw:11:atgAAAaaaAAGtaa", "MK*", "5"]
    # ---- hand-written tables
    d = by_aa(1)
    def table(weights, merge=None):
        ent = {a: list(cs) for a, cs in d.items()}
        if merge:
            x, y = merge
            ent[x] = ent[x] + ent.pop(y)
        return "ATG/TAA,TAG,TGA/" + ";".join(a + ":" + ",".join("%s=%d" % (c, weights(a, c)) for c in cs) for a, cs in ent.items())
    ten = table(lambda a, c: 1, merge=("L", "V"))          # L has ten equal synonyms: none above 10 %
    yield ["opt", "txt:" + ten, "MKL", "3"]
    yield ["opt", "txt:" + ten, "MKF", "3"]
    boundary = table(lambda a, c: {"TTA": 1, "TTG": 1, "CTT": 1, "CTC": 1, "CTA": 1, "CTG": 5}.get(c, 1))   # 1/10 exactly: excluded
    yield ["union", "txt:" + boundary, "L" * 40, "20"]
    above = table(lambda a, c: {"TTA": 2, "TTG": 1, "CTT": 1, "CTC": 1, "CTA": 1, "CTG": 13}.get(c, 1))     # 2/19 > 10 %
    yield ["union", "txt:" + above, "L" * 60, "40"]
    yield ["opt", "txt:" + ten.replace("ATG/TAA,TAG,TGA/", "//"), "MKF*", "3"]
    yield ["opt", "txt:" + ten.replace("ATG/TAA,TAG,TGA/", "ATG//"), "MKF*", "3"]
    nostar = ";".join(e for e in ten.split("/")[2].split(";") if not e.startswith("*:"))     # not a partition: correspondence only
    yield ["opt", "txt:ATG/TAA,TAG,TGA/" + nostar, "MKF*", "3"]
    zero = table(lambda a, c: 0 if a in "KR" else 7)
    yield ["opt", "txt:" + zero, "MAKV", "3"]
    yield ["opt", "txt:" + zero, "MAV", "3"]
    big = table(lambda a, c: 10 ** 12 + CODONS.index(c))
    yield ["opt", "txt:" + big, "MSLR*", "3"]
    # the share boundary with weights near 10^13..10^14 (float64 test vs exact test): K = AAA, AAG with 10*w - sum in {-1, 0, 1}
    for k in [10 ** 13, 3 * 10 ** 13 + 7, 10 ** 14 - 3]:
        for dlt in [-1, 0, 1]:
            # w + o = sum, 10 w = sum + dlt  ->  choose w = k, sum = 10 k - dlt, o = 9 k - dlt
            bt = table(lambda a, c: {"AAA": k, "AAG": 9 * k - dlt}.get(c, 1))
            yield ["union", "txt:" + bt, "MKKKKKKKKKK", "30"]
    # ---- unencodable residues under default tables
    for i in IDS if thorough else r.sample(IDS, 6) + [27]:
        letters = "".join(sorted(by_aa(i)))
        for badc in ["k", "m", "J", "B", "X", "Z", "U", "O", "1", " ", "-", "é"] + (["*"] if "*" not in letters else []):
            w = list(randword(r, letters, r.randint(0, 12)))
            w.insert(r.choice([0, len(w) // 2, len(w)]), badc)
            yield ["opt", "id:%d" % i, "".join(w), "2"]
    # ---- letters outside ASCII that COLLIDE with an encodable letter when truncated: code point mod 256, mod 128, mod 65536
    # equal to the code of a letter of the table (U+0141 -> 'A', U+014B -> 'K', U+00C1 -> 'A' mod 128, U+1004B -> 'K' ...).
    # They are absent from the table: the demanded outcome is the error (any DNA is a failure, it cannot translate back).
    for i in (r.sample(IDS, 5) + [1, 11]) if not thorough else IDS:
        letters = "".join(sorted(by_aa(i)))
        for mod in ([0x100, 0x80, 0x10000] if not thorough else [0x100, 0x200, 0x80, 0x10000, 0x400]):
            for _ in range(2):
                l = r.choice(letters)
                bad = chr(ord(l) + mod * (1 if mod == 0x10000 else r.randint(1, 3)))
                w = list(randword(r, letters, r.randint(0, 25)))
                w.insert(r.randrange(0, len(w) + 1), bad)
                yield ["opt", "id:%d" % i, "".join(w), "2"]
    cds = biased_cds(r, 11, 600)
    enc = encodable_letters(11, cds)
    for l in enc[:6]:
        yield ["opt", "rw:11:" + cds, randword(r, enc, 5) + chr(ord(l) + 0x100) + randword(r, enc, 5), "2"]
    # a rejected call followed by a valid call on the same goroutine (state left behind by the error path), and back
    for i in r.sample(IDS, 3) if not thorough else IDS:
        letters = "".join(sorted(by_aa(i)))
        yield ["hist", "id:%d" % i, "2", "O:" + randword(r, letters, 8) + "J" + randword(r, letters, 8), "O:" + randword(r, letters, 30),
               "O:" + chr(ord(letters[1]) + 0x100), "O:" + randword(r, letters, 30), "T:ATGAAATAG"]
    # ---- guards
    yield ["opt", "id:1", "", "2"]
    yield ["opt", "txt://", "MK", "2"]
    yield ["opt", "txt://", "", "1"]
    # ---- the library's own random proteins
    for n in range(-1, 7):
        yield ["rp", str(n), str(r.randrange(0, 1000)), "id:1"]
    for sd in [0, 1, -1, 2 ** 63 - 1, -2 ** 63, 2 ** 31 - 1, 2 ** 31, 2 ** 32]:
        yield ["rp", str(r.randint(3, 40)), str(sd), "id:11"]
    for i in IDS:
        yield ["rp", str(r.randint(3, 60)), str(r.randrange(-2 ** 40, 2 ** 40)), "id:%d" % i]
    for _ in range(40 if not thorough else 600):
        yield ["rp", str(loglen(r, 3, 2000)), str(r.randrange(-2 ** 62, 2 ** 62)), "id:%d" % r.choice(IDS)]
    for _ in range(5 if not thorough else 40):
        i = r.choice(IDS)
        yield ["rp", str(loglen(r, 3, 300)), str(r.randrange(0, 10 ** 6)), "rw:%d:%s" % (i, biased_cds(r, i, r.randint(100, 600)))]
    # ---- frequencies (statistical): 10^6 draws per case, so that the band (8 sigma + 1) is at most 0.4 percentage points wide
    per, calls = 10000, 100
    yield ["freq", "id:1", "L", str(per), str(calls)]
    yield ["freq", "txt:" + above, "L", str(per), str(calls)]
    nfreq = 0
    for _ in range(200):
        if nfreq >= (4 if not thorough else 24):
            break
        i = r.choice(IDS)
        cds = biased_cds(r, i, r.randint(300, 1500))
        ul = unequal_letters(i, cds)
        if ul:                                   # a letter whose eligible codons have DIFFERENT weights
            nfreq += 1
            yield ["freq", "rw:%d:%s" % (i, cds), r.choice(ul), str(per), str(calls)]
    # ---- the weighted pick itself: weightedrand.NewChooser + Pick against `newChooser` / `pick`, pointwise
    def seeds(k):
        return ",".join(str(r.randrange(-2 ** 62, 2 ** 62)) for _ in range(k))
    nseeds = 150 if not thorough else 400
    names = CODONS
    pick_lists = [
        [1], [5], [1, 1], [1, 2], [2, 1], [1, 1, 1, 1, 1, 1], [3, 1, 2], [1, 2, 3, 4, 5, 6, 7, 8, 9], [9, 8, 7, 6, 5, 4, 3, 2, 1],
        [5, 5, 1, 1, 3, 3], [2, 13], [10 ** 12, 10 ** 12 + 1, 7], [0, 3, 0, 2], [1] * 9, [4, 4, 4, 2, 2, 9, 9, 1],
        [7] * 13, list(range(20, 0, -1)), [3, 1, 4, 1, 5, 9, 2, 6, 5, 3, 5, 8, 9, 7, 9, 3, 2, 3, 8, 4]]
    for ws in pick_lists:
        yield ["pick", ",".join("%s=%d" % (names[k], w) for k, w in enumerate(ws)), seeds(nseeds)]
    for _ in range(15 if not thorough else 200):
        n = r.randint(1, 9) if r.random() < 0.8 else r.randint(10, 30)
        ws = [r.choice([1, 1, 2, 3, 5, 10, 30, r.randint(1, 1000)]) for _ in range(n)]
        yield ["pick", ",".join("%s=%d" % (c, w) for c, w in zip(r.sample(names, n), ws)), seeds(nseeds)]
    yield ["pick", "AAA=0,AAG=0", seeds(3)]              # max = 0: rand.Intn panics (out of domain; model says panic)
    # ---- one Optimize call replayed exactly on the model (the harness finds the clock seed)
    for _ in range(40 if not thorough else 400):
        i = r.choice(IDS)
        if r.random() < 0.4:
            spec, enc = "id:%d" % i, "".join(sorted(by_aa(i)))
        else:
            cds = biased_cds(r, i, r.randint(60, 900))
            spec, enc = "txt:" + counted_table(i, cds), encodable_letters(i, cds)
        if enc:
            yield ["replay", spec, randword(r, enc, r.randint(40, 400))]
    yield ["replay", "id:27", "MKV*"]
    # usage totals as in published tables (10^4 .. 10^7) and near 10^12: the chooser must not rescale or smooth them
    for _ in range(4 if not thorough else 40):
        i = r.choice(IDS)
        cds = biased_cds(r, i, r.randint(200, 900))
        k = r.choice([10 ** 4, 10 ** 5, 10 ** 6, 10 ** 7, 10 ** 10])
        tt = counted_table(i, cds)
        head, body = tt.rsplit("/", 1)
        body = ";".join(e.split(":")[0] + ":" + ",".join("%s=%d" % (cw.split("=")[0], int(cw.split("=")[1]) * k + (r.randrange(0, k) if int(cw.split("=")[1]) else 0))
                                                        for cw in e.split(":")[1].split(",")) for e in body.split(";"))
        enc = encodable_letters(i, cds)
        if enc:
            yield ["replay", "txt:" + head + "/" + body, randword(r, enc, r.randint(60, 300))]
    yield ["replay", "txt:" + big, randword(r, "".join(sorted(by_aa(1))), 200)]
    # ---- frequencies over a MIXED protein: every letter of the table judged in one case (statistical)
    reps, calls = (100, 500) if not thorough else (100, 2000)      # 5*10^4 / 2*10^5 draws per letter
    mixed = []
    for _ in range(3 if not thorough else 12):
        i = r.choice(IDS)
        mixed.append(("id:%d" % i, "".join(sorted(by_aa(i)))))
    for _ in range(3 if not thorough else 12):
        i = r.choice(IDS)
        cds = biased_cds(r, i, r.randint(300, 3000))
        enc = encodable_letters(i, cds)
        if enc:
            mixed.append(("rw:%d:%s" % (i, cds), enc))
    mixed.append(("txt:" + above, "".join(sorted(by_aa(1)))))
    mixed.append(("id:11", "".join(sorted(by_aa(11)))))     # uniform weights: every synonym must be emitted, each equally often
    for spec, enc in mixed:
        yield ["freqmix", spec, "".join(r.sample(enc * reps, reps * len(enc))), str(calls)]
    # ---- counts PER POSITION of a short protein (statistical): a choice that depends on the position (first residue gets the
    # most used codon ...) is invisible to counts pooled per letter; 10^4 calls, every position judged on its own
    pcalls = "10000"
    yield ["pos", "id:1", "LLL", pcalls]
    yield ["pos", "id:%d" % r.choice([2, 5, 13, 21]), "MML", pcalls]
    yield ["pos", "id:11", "MKLSR*", pcalls]
    npos = 0
    for _ in range(300):
        if npos >= (3 if not thorough else 20):
            break
        i = r.choice(IDS)
        cds = biased_cds(r, i, r.randint(300, 1500))
        ew = eligible_weights(i, cds)
        three = [a for a, el in ew.items() if len(el) >= 3 and len(set(w for _, w in el)) >= 2]
        if three:
            npos += 1
            a = r.choice(three)
            yield ["pos", "rw:%d:%s" % (i, cds), a * 3, pcalls]
            if npos == 1:
                yield ["pos", "rw:%d:%s" % (i, cds), randword(r, "".join(ew), 10), pcalls]
    for i in r.sample([2, 3, 5, 13, 21], 2 if not thorough else 5):      # M first, with ATA and ATG both eligible and unequal
        cds = biased_cds(r, i, 400)
        cds = "".join(c for c in (cds[j:j + 3] for j in range(0, len(cds) - 2, 3)) if c not in ("ATG", "ATA")) + "ATA" * 30 + "ATG" * 11
        enc = encodable_letters(i, cds)
        yield ["pos", "rw:%d:%s" % (i, cds), "M" + randword(r, enc, 2), pcalls]
    # ---- adjacent picks are independent: codon-pair counts for a two-letter repeat (statistical)
    pair_units = ["KL", "KK"] if not thorough else ["KL", "KK", "FF", "GG", "PP", "LS", "RR", "AV", "SS", "TG"]
    for u in pair_units:
        yield ["pairs", "id:%d" % r.choice([1, 11, 4]), u, "500", str(100 if not thorough else 400)]
    i = r.choice(IDS)
    cds = biased_cds(r, i, 2000)
    enc = encodable_letters(i, cds)
    if len(enc) >= 2:
        for _ in range(1 if not thorough else 6):
            yield ["pairs", "rw:%d:%s" % (i, cds), r.choice(enc) + r.choice(enc), "500", str(100 if not thorough else 400)]
    # ---- out of domain: correspondence only
    neg = table(lambda a, c: -5 if c == "AAA" else 1)             # K: weights -5, 1 -> sum -4: uint wrap, rand.Intn(-5) panics
    yield ["opt", "txt:" + neg, "MK", "2"]
    yield ["opt", "txt:" + neg, "MV", "2"]
    neg2 = table(lambda a, c: {"AAA": 3, "AAG": -3}.get(c, 1))    # K: sum 0, 3/0 = +Inf passes
    yield ["opt", "txt:" + neg2, "MK", "2"]
    neg3 = table(lambda a, c: {"AAA": -1, "AAG": 5}.get(c, 1))
    yield ["opt", "txt:" + neg3, "MK", "2"]
    dup = "ATG/TAA/K:AAA=1,AAG=1;M:ATG=1;K:AAG=5"
    yield ["opt", "txt:" + dup, "MKK", "4"]
    yield ["opt", "txt:ATG/TAA/M:ATG=1;AB:CCC=1;:GGG=1", "M", "2"]

TIMEOUT_MS = 120000
TECHNIQUE = ("Lean 4 proof over a model of chooser / weightedrand.NewChooser / Pick (binary search transcribed) / Optimize with the random "
             "draws and the unstable sort as universally quantified parameters; membership correspondence + statistical tests")
LEVEL_TEXT = ("For every table that lists each of the 64 codons once with non-negative weights, every permutation the unstable sort may "
              "return, every protein and every list of in-range draws: optimize_total / optimize_len (3 bases per residue), "
              "optimize_roundtrip (Translate gives the protein back), optimize_threshold (every emitted codon has share > 10 % and weight "
              "> 0), eligible_exists (positive usage and <= 9 synonyms give a chooser, no panic), pick_proportional (exactly w(c) of the max "
              "draw values select c), optimize_unencodable (= error, never a crash), the two guards, and for random.ProteinSequence: shape "
              "and alphabet, round trip under the 22 default tables that have a '*' entry, error under codes 27/28/31 (no '*' entry). "
              "Because Optimize reseeds from the clock, real outputs are compared as members of the model's possible-output set and every "
              "real output is judged for length, round trip (by the library's Translate and by the NCBI spec) and threshold; eligible sets "
              "and proportionality are supported by statistical tests (union over 480 picks per letter; 10^6 draws per frequency case, band 8 sigma + 1).")
LEVEL_NOTE = ("Trusted: Lean kernel; harness; exact-vs-float share test (assumed, cross-checked numerically each run); uniformity of "
              "math/rand (assumed); Go map / sort.Slice semantics as modelled. "
              "False-alarm probability of the statistical cases on a correct implementation, per run, all cases together: union cases give "
              "every letter >= 300 picks (480 in the per-table cases), an eligible codon has share > 1/10, so a codon is missed with "
              "probability < 0.9^300 = 1.9e-14, times < 2*10^4 (letter, codon) pairs per run: < 4e-10; every frequency / pair / per-position count (pos cases: 10^4 calls, share > 1/10, so "
              "sigma >= 30; <= 10 positions x 9 codons x < 30 cases per run) is a "
              "binomial with standard deviation >= 20 judged with the band 8 sigma + 1: by Bernstein's inequality each band fails with "
              "probability < 2*exp(-64/(2+16/60)) = 1.1e-12, times < 10^4 bands per run (thorough): < 2e-8. Total < 10^-6 per run. "
              "(Position-0 cases are opt cases, judged run by run; they carry no union demand.)")

HARNESS_BIN = "run-codon"
EXTRACT_BINS = ["extract-codon"]
