"""C09 — GoldenGate / CircularLigate return exactly the plasmids the overhangs allow."""
from common import *
import itertools

RULE = ("pools of fragments handed to clone.CircularLigate, and parts handed to clone.GoldenGate (BsaI/BbsI/BtgZI), each in the given "
        "order and in three shuffles: designed assemblies (1..6 junctions, 1..3 alternatives per slot, each fragment supplied in a random "
        "orientation, dead-end decoys, linear and circular carriers at a random rotation and on a random strand); every pool of <= N "
        "fragments over three overhangs for three overhang alphabets (plain / with a reverse-complement pair / with a palindrome) "
        "(exhaustive); pools whose overhangs close cycles that exclude the seed; duplicated fragments; palindromic overhangs; "
        "self-closing and both-way fragments; random pools. non-trivial = at least two fragments and at least one ring; distinct by case text")
EXHAUSTIVE = {"quick": False, "thorough": True}
TRUSTED_BASE = ["the key of the collector is modelled as the canonical form that is hashed (least rotation of the lesser strand); "
                "BLAKE3 is collision-free on the constructs of one call (assumption, cf. C05)",
                "C09 is stated over the arg-min least rotation, i.e. modulo C12",
                "Go scheduler and memory model: the Step system of Model/Ligate.lean (unbuffered channel, WaitGroup, close after Wait) "
                "stands for the runtime; data races are outside it and are left to the -race runs",
                "CutWithEnzymeByName is a parameter of the GoldenGate model (C10); GoldenGate = CircularLigate on the concatenated cuts is "
                "checked at implementation level on every gg case"]
ASSUMPTIONS = ["fragments and parts are upper-case ACGT", "a duplicated fragment value denotes the same fragment species (a ring uses a value at most once)"]
PARTIAL = ["ligate_complete: 'none missing' is proved for SIMPLE rings (junction overhangs pairwise distinct and non-palindromic, every "
           "fragment in either orientation) — all rings of a designed assembly; for closed chains with a repeated or palindromic "
           "junction overhang only soundness is claimed (the code returns some of them, see notes/findings/C09.md observations A, B)",
           "ligate_unique: proved for the canonical-form key (key_eq_iff: equal key <=> same molecule); the step from the key to the "
           "BLAKE3 hash the code compares is hash_eq_iff_key_eq under an explicit no-collision hypothesis",
           "ligate_schedule / ligate_terminates: theorems about ALL runs of the Step system (Model/Ligate.lean); data races and "
           "scheduler fairness are not expressible there and are covered only by the GOMAXPROCS 1/2/16 and -race runs"]
TECHNIQUE = ("Lean 4 proof about a model of the spawn tree and of the goroutine system (invariant + variant over all interleavings); "
             "independent ring spec; differential correspondence incl. GOMAXPROCS variants and the race detector")
LEVEL_TEXT = ("All six clauses are kernel-checked theorems about the model for pools of every size (Props/C09): ligate_sound (every construct "
              "sent is, letter for letter, the molecule of a closed chain of distinct oriented pool fragments starting at the seed), "
              "ligate_complete (every simple ring has its molecule up to rotation/strand in the result; rings traversed only by flipped "
              "fragments are found from the other strand), ligate_unique (+ key_eq_iff: equal key <=> same molecule), ligate_order (the "
              "multiset sent and the key set returned are invariant under permutation of the pool), ligate_schedule (over every interleaving "
              "of the goroutine system: nothing sent on a closed channel, close after the last send, every maximal run delivers a permutation "
              "of all sends, same key set), ligate_terminates (fuel never exhausted, depth <= |pool|, every run bounded by a variant). The "
              "model is tied to clone.CircularLigate / clone.GoldenGate by correspondence on every generated pool in four input orders, "
              "compared as sets of canonical forms computed in Lean from the returned sequences; every real result is judged against an "
              "independent enumeration of the rings (equality with the simple rings for designed assemblies), GoldenGate additionally against "
              "the designed fragments and as CircularLigate of the real cuts.")
LEVEL_NOTE = ("Trusted: Lean kernel; harness + driver; the Go runtime is represented by an interleaving semantics (races, scheduler "
              "fairness not expressible: covered only by GOMAXPROCS 1/2/16 and -race runs); BLAKE3 collision-freeness; C12 for the least rotation.")
HARNESS_BIN = "run-clone"
EXTRACT_BINS = []
TIMEOUT_MS = 20000
NEEDS_RACE = True

COMP = {"A": "T", "C": "G", "G": "C", "T": "A"}
ENZ = {"BsaI": ("GGTCTC", 1), "BbsI": ("GAAGAC", 2), "BtgZI": ("GCGATG", 10)}


def rc(s):
    return "".join(COMP[c] for c in reversed(s))


def flip(f):
    return (rc(f[0]), rc(f[2]), rc(f[1]))


def perms(r, n):
    out = []
    for _ in range(3):
        p = list(range(n))
        r.shuffle(p)
        out.append(" ".join(map(str, p)))
    return out


def overhangs(r, k, strict=True, pal=0):
    """k distinct 4-mers; strict: none palindromic, no two reverse complements of each other; pal: that many palindromes"""
    out = []
    pals = ["AATT", "ACGT", "GATC", "TGCA", "CCGG", "TTAA"]
    r.shuffle(pals)
    while len(out) < k:
        if pal > 0:
            o = pals.pop(); pal -= 1
        else:
            o = randword(r, ACGT, 4)
            if not strict and out and r.random() < 0.4:
                o = rc(r.choice(out))       # deliberately a reverse-complement pair
            if o == rc(o):
                continue
            if strict and rc(o) in out:
                continue
        if o in out:
            continue
        out.append(o)
    r.shuffle(out)
    return out


def seqword(r, lo=0, hi=12, avoid=()):
    for _ in range(200):
        w = randword(r, ACGT, r.randint(lo, hi))
        if not any(a in w for a in avoid):
            return w
    return "A" * lo


def lig_case(r, tag, frags):
    """frags: list of (seq, fwd, rev, flipbit)"""
    text = ";".join("%s,%s,%s,%d" % f for f in frags)
    return ["lig", tag, text] + perms(r, len(frags))


def design(r, k, maxalt, strict=True, pal=0, decoys=0, avoid=(), minseq=0, budget=3000):
    """fragments (seq,fwd,rev) of a designed assembly with k junctions; returns (ring fragments, decoys)"""
    while True:
        alts = [r.randint(1, maxalt) for _ in range(k)]
        prod = 1
        for a in alts:
            prod *= a
        if prod * sum(alts) <= budget:
            break
    ohs = overhangs(r, k + decoys, strict, pal)
    ring, extra = [], []
    for j in range(k):
        for _ in range(alts[j]):
            ring.append((seqword(r, minseq, 12, avoid), ohs[j], ohs[(j + 1) % k]))
    for d in range(decoys):
        a = r.choice(ohs[:k])
        b = ohs[k + d]
        extra.append((seqword(r, minseq, 12, avoid), a, b) if r.random() < 0.5 else (seqword(r, minseq, 12, avoid), b, a))
    return ring, extra


def with_flips(r, frags, p=0.5):
    out = [(s, f, v, 1 if r.random() < p else 0) for (s, f, v) in frags]
    r.shuffle(out)
    return out


def small_pools(nmax):
    """every multiset of <= nmax fragments over three overhangs, three overhang alphabets"""
    alphabets = [("plain", ["AATG", "GCTT", "CCGA"]), ("rcpair", ["AATG", "CATT", "GCTT"]), ("palin", ["AATT", "AATG", "GCTT"])]
    seqs = ["C", "GA", "TTG", "ACAC", "G"]
    for name, ohs in alphabets:
        pairs = [(a, b) for a in ohs for b in ohs]
        for n in range(1, nmax + 1):
            for combo in itertools.combinations_with_replacement(range(len(pairs)), n):
                frags = [(seqs[i], pairs[c][0], pairs[c][1], 0) for i, c in enumerate(combo)]
                ident = list(range(n))
                text = ";".join("%s,%s,%s,%d" % f for f in frags)
                yield ["lig", "small-" + name, text, " ".join(map(str, reversed(ident))),
                       " ".join(map(str, ident[1:] + ident[:1])), " ".join(map(str, ident[n // 2:] + ident[:n // 2]))]


def gg_case(r, tag, enz, ring, extra, rawparts=0):
    site, skip = ENZ[enz]
    rsite = rc(site)
    avoid = (site, rsite)

    def count(w, circ):
        ww = w + w[:len(site) - 1] if circ else w
        return (sum(1 for i in range(len(ww) - 5) if ww[i:i + 6] == site), sum(1 for i in range(len(ww) - 5) if ww[i:i + 6] == rsite))

    items = []
    for (s, f, v) in ring + extra:
        for _ in range(100):
            fl = 1 if r.random() < 0.5 else 0
            shape = r.choice("CL")
            padL, padR = seqword(r, 0, 30, avoid), seqword(r, 0, 30, avoid)
            if shape == "C":
                padL = seqword(r, 10, 60, avoid)
            sp1, sp2 = randword(r, ACGT, skip), randword(r, ACGT, skip)
            pflip = 1 if r.random() < 0.5 else 0
            ff = flip((s, f, v)) if fl else (s, f, v)
            insert = site + sp1 + ff[1] + ff[0] + ff[2] + sp2 + rsite
            if shape == "C":
                body = insert + padL + padR
                rot = r.randrange(0, len(body))
                k = rot % len(body)
                body = body[k:] + body[:k]
            else:
                body = padL + insert + padR
                rot = 0
            part = rc(body) if pflip else body
            if count(part, shape == "C") == (1, 1):
                items.append("%s,%s,%s,%d,%s,%s,%s,%s,%s,%d,%d" % (s, f, v, fl, shape, padL, padR, sp1, sp2, rot, pflip))
                break
        else:
            return None
    for _ in range(rawparts):
        items.append("%s,%s" % (seqword(r, 8, 40, avoid) if True else "", r.choice("CL")))
    r.shuffle(items)
    for it in items:
        if len(it.split(",")) == 2 and count(it.split(",")[0], it.split(",")[1] == "C") != (0, 0):
            return None
    return ["gg", tag, enz, ";".join(items)] + perms(r, len(items))


def cases(seed, tier):
    r = rng(seed, "C09")
    quick = tier == "quick"
    # --- exhaustive small pools
    for c in small_pools(3 if quick else 4):
        yield c
    # --- hand-made shapes (also in the corpus): cycle without the seed, self-closing, both-way, palindromes, duplicates
    A, B, C, D = "AATG", "GCTT", "CCGA", "TGAC"
    yield lig_case(r, "cycle", [("AC", A, B, 0), ("GG", B, C, 0), ("TT", C, B, 0)])
    yield lig_case(r, "cycle", [("AC", A, B, 0), ("GG", B, C, 0), ("TT", C, D, 0), ("CA", D, B, 0), ("GT", D, C, 0)])
    yield lig_case(r, "selfclose", [("ACGTAC", A, A, 0)])
    yield lig_case(r, "selfclose", [("ACGTAC", A, A, 0), ("GG", A, B, 0), ("CC", B, A, 0)])
    yield lig_case(r, "bothways", [("ACC", A, rc(A), 0), ("GGT", rc(A), A, 0)])
    yield lig_case(r, "dup", [("ACC", A, B, 0), ("GGT", B, A, 0), ("GGT", B, A, 0), ("ACC", A, B, 0)])
    yield lig_case(r, "dup-twice-needed", [("ACC", A, B, 0), ("GGT", B, rc(B), 0), ("ACC", A, B, 0), ("CAT", rc(A), A, 0)])
    yield lig_case(r, "pal", [("ACC", A, "AATT", 0), ("GGT", rc(A), "AATT", 0)])
    yield lig_case(r, "pal", [("ACC", "AATT", B, 0), ("GGT", B, "AATT", 0)])
    yield lig_case(r, "repeat-overhang", [("AC", A, B, 0), ("GG", B, C, 0), ("TT", C, B, 0), ("CA", B, A, 0)])
    yield lig_case(r, "repeat-overhang", [("AC", A, B, 0), ("GG", B, A, 0), ("TT", A, B, 0), ("CA", B, A, 0)])
    # --- designed assemblies, ligation path
    n = 120 if quick else 1500
    for i in range(n):
        k = r.randint(1, 6)
        strict = r.random() < 0.8
        if strict:
            ring, extra = design(r, k, 3, strict=True, decoys=r.choice([0, 0, 1, 2, 3]), budget=600 if quick else 5000)
        else:
            # overhang sets with reverse-complement pairs let fragments join in unintended ways: the recursion tree
            # grows factorially, keep these pools small
            ring, extra = design(r, min(k, 4), 2, strict=False, decoys=r.choice([0, 1]), budget=60)
            ring = ring[:7]
        yield lig_case(r, "design" if strict else "design-loose", with_flips(r, ring + extra))
    # the largest library shape the property names
    if not quick:
        for _ in range(3):
            ohs = overhangs(r, 6)
            ring = [(seqword(r, 0, 8), ohs[j], ohs[(j + 1) % 6]) for j in range(6) for _ in range(3)]
            yield lig_case(r, "design-6x3", with_flips(r, ring))
    # --- cycles that exclude the seed: a tail leading into a cycle, plus chords
    for i in range(40 if quick else 400):
        m = r.randint(3, 7)
        ohs = overhangs(r, r.randint(2, 4), strict=r.random() < 0.7)
        frags = [(seqword(r, 0, 6), r.choice(ohs), r.choice(ohs)) for _ in range(m - 1)]
        tail = overhangs(r, 1)[0]
        frags.append((seqword(r, 1, 6), tail, r.choice(ohs)))
        if m > 6:
            # keep the recursion tree small: at most 6 fragments over few overhangs
            frags = frags[1:]
        yield lig_case(r, "cycle", with_flips(r, frags, 0.3))
    # --- duplicates (identical values), flipped copies of the same fragment
    for i in range(30 if quick else 300):
        ring, extra = design(r, r.randint(1, 4), 2, decoys=r.choice([0, 1]), budget=200)
        frags = with_flips(r, ring + extra)
        for _ in range(r.randint(1, 3)):
            f = r.choice(frags)
            if r.random() < 0.6:
                frags.append(f)
            else:
                # the same species supplied once more on the other strand
                g = flip(f[:3])
                frags.append((g[0], g[1], g[2], f[3]))
        r.shuffle(frags)
        if len(frags) <= 9:
            yield lig_case(r, "dup", frags)
    # --- palindromic overhangs inside designs
    for i in range(30 if quick else 300):
        k = r.randint(1, 5)
        ring, extra = design(r, k, 2, strict=True, pal=r.randint(1, min(2, k)), decoys=r.choice([0, 1]), budget=300)
        yield lig_case(r, "pal", with_flips(r, ring + extra))
    # --- random pools over few overhangs (closed under reverse complement half of the time)
    for i in range(60 if quick else 800):
        ohs = overhangs(r, r.randint(1, 3), strict=True, pal=r.choice([0, 0, 1]))
        if r.random() < 0.5:
            ohs = ohs + [rc(o) for o in ohs if rc(o) != o]
        m = r.randint(1, 6 if len(ohs) > 2 else 5)
        frags = [(seqword(r, 0, 6), r.choice(ohs), r.choice(ohs)) for _ in range(m)]
        yield lig_case(r, "random", with_flips(r, frags, 0.3))
    # --- GoldenGate path
    made, want = 0, (60 if quick else 600)
    while made < want:
        enz = r.choice(list(ENZ))
        site = ENZ[enz][0]
        k = r.randint(1, 6)
        strict = r.random() < 0.9
        if strict:
            ring, extra = design(r, k, 3, strict=True, decoys=r.choice([0, 0, 1, 2]), avoid=(site, rc(site)),
                                 budget=300 if quick else 3000)
        else:
            ring, extra = design(r, min(k, 4), 2, strict=False, decoys=r.choice([0, 1]), avoid=(site, rc(site)), budget=60)
            ring = ring[:7]
        c = gg_case(r, "design" if strict else "design-loose", enz, ring, extra, rawparts=r.choice([0, 0, 1]))
        if c:
            made += 1
            yield c
    # --- outside the quantifier (correspondence only): lower case, IUPAC, invalid letters, unknown enzyme, empty pool
    yield ["lig", "empty", "", "", "", ""]
    yield ["lig", "ood-lower", "acc,aatg,gctt,0;ggt,gctt,aatg,0", "1 0", "0 1", "1 0"]
    yield ["lig", "ood-mixedcase", "acc,AATG,GCTT,0;ggt,GCTT,AATG,0", "1 0", "0 1", "1 0"]
    yield ["lig", "ood-iupac", "ANC,AATG,GCTT,0;GGT,GCTT,AATG,0", "1 0", "0 1", "1 0"]
    yield ["lig", "ood-invalid-letters", "AXC,AATG,AATG,0;GJT,GCTT,GCTT,0;ACG,CCGA,CCGA,0", "2 1 0", "1 0 2", "1 2 0"]
    yield ["lig", "ood-nonascii", "A\u017fC,AATG,AATG,0;G\u017fC,CCGA,CCGA,0", "1 0", "0 1", "1 0"]
    yield ["gg", "ood-enzyme", "EcoRI", "ACGTACGTAC,L", "0", "0", "0"]


def _tag(line):
    f = line.split("\t")
    return (f[0], f[1]) if len(f) > 1 else ("", "")


def _nfrag(line):
    f = line.split("\t")
    if f[0] == "lig":
        return f[2].count(";") + 1
    if f[0] == "gg":
        return f[3].count(";") + 1
    return 0


def extra_runs(seed, tier, case_lines):
    """the same cases at GOMAXPROCS 1 / 2 / 16 (the main run uses the default), several times; under the race detector in the
    thorough tier.  Every case executes the call four times (four input orders), so 5 repetitions = 20 executions."""
    r = rng(seed, "C09-extra")
    pick = [l for l in case_lines if not _tag(l)[1].startswith(("ood", "small"))]
    small = [l for l in case_lines if _tag(l)[1].startswith("small")]
    if tier == "quick":
        sub = r.sample(pick, min(40, len(pick))) + r.sample(small, min(20, len(small)))
        for g in ("1", "2", "16"):
            yield ("gomaxprocs" + g, sub, {"GOMAXPROCS": g}, False)
    else:
        sub = r.sample(pick, min(300, len(pick))) + r.sample(small, min(100, len(small)))
        for g in ("1", "2", "16"):
            yield ("gomaxprocs" + g, sub * 3, {"GOMAXPROCS": g}, False)
        # the race detector dies beyond 8128 live goroutines: keep to moderate pools
        rsub = [l for l in pick if _nfrag(l) <= 9]
        rsub = r.sample(rsub, min(60, len(rsub))) + r.sample(small, min(20, len(small)))
        import os
        logdir = os.path.join(os.path.dirname(os.path.dirname(os.path.abspath(__file__))), "build", "C09")
        for g in ("1", "2", "16"):
            yield ("race" + g, rsub * 5, {"GOMAXPROCS": g, "GORACE": "log_path=%s/race-report exitcode=0" % logdir}, True)
