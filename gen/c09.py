"""C09 — GoldenGate / CircularLigate return exactly the plasmids the overhangs allow."""
from common import *
import itertools

RULE = ("pools of fragments handed to clone.CircularLigate, and parts handed to clone.GoldenGate (BsaI/BbsI/BtgZI), each in the given "
        "order and in three shuffles: designed assemblies (1..6 junctions, 1..3 alternatives per slot, each fragment supplied in a random "
        "orientation, dead-end decoys; carriers linear or circular, at a random rotation, on a random strand, 20% in lower case, releasing one, "
        "two or three fragments each, with extra sites whose outer copy is cut away and site pairs that release a piece of backbone; "
        "inserts up to 500 (thorough: 2000) bases; a 300-base backbone followed by short alternatives and a decoy; one circular carrier at "
        "EVERY rotation; GoldenGate histories inside one process: a carrier's sequence text first in its other topology, "
        "then the assembly proper, origin inside the insert / a site / the backbone, each call judged for its own topology); every pool of <= N fragments over three overhangs for three overhang alphabets (plain / with a "
        "reverse-complement pair / with a palindrome) (exhaustive); pools whose overhangs close cycles that exclude the seed (<= 6 "
        "fragments, 10 s deadline per request of four calls); duplicated fragments; palindromic overhangs; self-closing and both-way fragments; random "
        "pools. The verdict is decided from the pool (Spec.Rings.designed), not from the generator's label. non-trivial = at least two "
        "fragments and at least one ring; distinct by case text")
EXHAUSTIVE = {"quick": False, "thorough": True}
TRUSTED_BASE = ["the key of the collector is modelled as the canonical form that is hashed (least rotation of the lesser strand); "
                "BLAKE3 is collision-free on the constructs of one call (assumption, cf. C05)",
                "C09 is stated over the arg-min least rotation, i.e. modulo C12",
                "the goroutine system Sys/Step of Model/Ligate.lean is transcribed BY HAND from clone.go lines 264-343 (one goroutine per "
                "recursion node, wg.Add before go, deferred wg.Done, unbuffered channel, collector started after the launch loop, close after "
                "Wait); nothing extracts this structure from the source, so a change of the concurrency structure is visible only to the "
                "GOMAXPROCS / -race runs; data races are outside the model",
                "harness/cmd/extract-clone (about 200 lines of go/parser + go/ast, purely syntactic, no type checking): regenerates "
                "Gen/CloneFacts.lean from $VERIF_REPO/clone/clone.go on every run — the synchronisation vocabulary (go, chan element types, "
                "close, select, sync types, watched method names) of the functions reachable by name from CircularLigate, the number of "
                "functions receiving from a chan string, whether one is sent on, and four order facts (Add immediately before each worker go, "
                "defer Done first in the worker body, close of the construct channel after a waiting statement, collector go before the "
                "waiting statement); clone_structure_pinned compares them with what the Step rules assume. Not pinned: goroutine count and "
                "buffering (a buffered construct channel is syntactically the harmless rewrite C09-h3)",
                "CutWithEnzymeByName is a parameter of the GoldenGate model (C10); GoldenGate = CircularLigate on the concatenated cuts is "
                "checked at implementation level on every gg case (model run on the real cuts; real cuts compared with an independent layout)"]
ASSUMPTIONS = ["fragments and parts are ACGT (parts in either case; CutWithEnzyme upper-cases them)",
               "a duplicated fragment value denotes the same fragment species (a ring uses a value at most once)",
               "junction overhangs are not self-complementary (palindromic). Derived from the property's premise 'parts whose enzyme-cut "
               "overhangs chain into one or more rings' read as Golden Gate designs: a palindromic overhang ligates to itself in either "
               "orientation, so it does not chain fragments into a designed ring, and Golden Gate overhang sets exclude palindromes. Outside this "
               "assumption the result of the real code depends on the strand a fragment is written on "
               "(CircularLigate([{ACC,AATG,AATT},{GGT,CATT,AATT}]) returns 0 constructs, the same tube with the second fragment on its other "
               "strand returns 1): recorded in notes/findings/C09.md, classes '+pal' / 'missing-ring:pal'",
               "'exactly' is claimed as an equality for designed assemblies (Spec.Rings.designed: ACGT; among the oriented fragments that "
               "survive the pruning of dead ends to the fixpoint — decoys of any shape: single, chained, sharing their dead end or their lead-in, "
               "palindromic, digest by-products — no junction overhang is self-complementary and the forward overhang determines the reverse overhang); for every pool the exact "
               "set returned is characterised by ligate_exact (rings closed at the first return to the seed's forward overhang)"]
PARTIAL = ["a LOSSY send of a construct (a select with a default or a timer around `c <- construct`) cannot be exposed by the dynamic runs: it "
           "needs a stalled collector or more than a buffer's worth (thousands) of pending constructs, and the harness cannot reach inside "
           "CircularLigate; it is excluded by the HARD structural obligation clone_sends_unconditional (Props/C09.lean: no send on the "
           "construct channel is a select communication; fact re-extracted from clone.go on every run)",
           "the schedule theorems are about a hand-transcribed Step system; its structural pin (synchronisation vocabulary + four order "
           "facts, regenerated from clone.go; Props/C09Pin.lean clone_structure_pinned) is a soft obligation reported in the evidence; results "
           "under GOMAXPROCS 1/2/16 and -race are judged on every run",
           "ligate_complete ('none missing') is proved for SIMPLE rings (junction overhangs pairwise distinct and non-palindromic, every fragment "
           "in either orientation). A designed assembly also has non-simple rings (multi-lap concatemers of alternatives: a strict 2x2 design "
           "has 6 rings, 4 simple); ligate_designed proves that on designed pools exactly the simple rings are returned, each once, so the "
           "concatemers are NOT returned (and the judge forbids them). On other pools the code returns some non-simple closed chains and "
           "not others (ligate_exact says which; notes/findings/C09.md observations A, B)",
           "ligate_unique: proved for the canonical-form key (key_eq_iff: equal key <=> same molecule); the step from the key to the "
           "BLAKE3 hash the code compares is hash_eq_iff_key_eq under an explicit no-collision hypothesis",
           "ligate_schedule / ligate_terminates: theorems about ALL runs of the hand-transcribed Step system (Model/Ligate.lean), bounded "
           "by a variant (no fairness needed); only 'delivered => permutation of the sends' is proved, not that every permutation "
           "occurs; data races are not expressible and are covered only by the GOMAXPROCS 1/2/16 and -race runs (a sample of the cases, "
           "20 repetitions each, in both tiers; one 6x3 library 20 times per GOMAXPROCS value under -race in the thorough tier)",
           "termination on the real code is observed under a 10 s deadline per request (four calls) on cyclic pools of <= 6 fragments (the recursion tree is "
           "factorial in the pool size); beyond that it is proved for the model only"]
TECHNIQUE = ("Lean 4 proof about a model of the spawn tree and of the goroutine system (invariant + variant over all interleavings); "
             "independent ring spec with a decidable 'designed assembly' predicate; differential correspondence incl. GOMAXPROCS variants "
             "and the race detector")
LEVEL_TEXT = ("Kernel-checked theorems about the model for pools of every size (Props/C09): ligate_exact (a construct is sent IFF it is, letter "
              "for letter, the molecule of a ring that starts with a pool fragment as supplied, does not return to that fragment's forward "
              "overhang before closing, and flips fragments only onto non-palindromic overhangs), ligate_designed + ligate_designed_once (on a "
              "designed assembly the returned molecules are EXACTLY those of the simple rings = the designed plasmids, each exactly once — "
              "multi-lap concatemers of alternatives, which are rings too, are not returned), ligate_sound / ligate_complete (any DNA pool: "
              "result within all rings, containing all simple rings; rings traversed only by flipped fragments are found from the other "
              "strand), ligate_unique (+ key_eq_iff: equal key <=> same molecule), ligate_order (multiset sent and key set returned invariant "
              "under permutation of the pool), ligate_schedule (every interleaving of the Step system: nothing sent on a closed channel, close "
              "after the last send, every maximal run delivers a permutation of all sends, same key set), ligate_terminates (fuel never "
              "exhausted, depth <= |pool|, every run bounded by a variant). The model is tied to clone.CircularLigate / clone.GoldenGate by "
              "correspondence on every generated pool in four input orders, compared as sets of canonical forms computed in Lean from the "
              "returned sequences; every real result is judged against an independent enumeration of the rings — equality with the simple "
              "rings whenever the pool is a designed assembly (decided from the pool), simple <= result <= one-lap rings (the class of ligate_exact, "
              "enumerated independently of the model) and, up to nine fragment values, <= all rings otherwise —, the Circular flag "
              "of every returned part, GoldenGate additionally against an independent layout of the parts (several fragments per carrier, extra "
              "sites, every rotation of a circular carrier) and as CircularLigate of the real cuts.")
LEVEL_NOTE = ("Trusted: Lean kernel; harness + driver; the Go runtime is represented by an interleaving semantics transcribed by hand from "
              "clone.go 264-343 (races not expressible; a change of the goroutine structure is seen only by the GOMAXPROCS 1/2/16 and -race "
              "runs on a sample of cases, 20 repetitions each); BLAKE3 collision-freeness; C12 for the least rotation. A change of clone.go that brings a "
              "new synchronisation mechanism into the functions under CircularLigate (mutex, semaphore channel, select, sync.Map, second "
              "collector, no channel), or that changes the Add/go, defer-Done, Wait/close or collector/Wait order, breaks clone_structure_pinned (Props/C09Pin.lean), which is a SOFT obligation: the evidence records it "
              "(soft_obligations_broken) and no violation is raised, because a harmless restructuring (seeded-harmless/C09-h5: bounded worker "
              "pool, waiter goroutine closing the channel) breaks it too; the schedule theorems are about a hand-transcribed Step system, and "
              "results under GOMAXPROCS 1/2/16 and -race are judged on every run. Palindromic junction "
              "overhangs are excluded by assumption. After three calls that do not return within the deadline the harness stops executing the "
              "remaining cases of the run: only in-quantifier requests are counted, the record lives in build/C09 keyed by the check process and "
              "its start time and is removed when the run begins and ends; a not-run reply that does not name three in-quantifier hung requests "
              "is judged FAIL. The ring walks are cross-checked against brute force on pools of <= 5 values, and of 6 / 7 values in the bf6 / bf7 "
              "case families. A race report is attributed to the request that notices it, which can be the one after the racy call. The judge's ring "
              "enumerators are proved correct for pools of every size (judge_rings_sound / judge_rings_exact / judge_simple_rings_exact / "
              "judge_oneLap_exact: the sets of ring LISTS are exactly the spec's rings / simple rings / one-lap rings); what is not proved "
              "about the judge is downstream of the rings: the linear-time canonical form keyFast (compared with the proved key on every "
              "returned construct of <= 200 letters), the ring-code deduplication (an optimisation: one representative per rotation/strand "
              "class) and the sorting of key lists. The circuit breaker is per pipeline run (main, each GOMAXPROCS run, each race run: hangs in one schedule run do not un-run the others), except that an open breaker of the MAIN run (three in-quantifier calls that did not return: a non-termination regression, reported with failing inputs) also stops the schedule runs — at GOMAXPROCS=1 a call that spawns goroutines without end starves the timers and could not be ended by any deadline.")
HARNESS_BIN = "run-clone"
EXTRACT_BINS = ["extract-clone"]
SOFT_MODULES = ["PolyVerif.Props.C09Pin"]
TIMEOUT_MS = 10000
NEEDS_RACE = True
NEEDS_RACE_QUICK = True

COMP = {"A": "T", "C": "G", "G": "C", "T": "A"}
ENZ = {"BsaI": ("GGTCTC", 1), "BbsI": ("GAAGAC", 2), "BtgZI": ("GCGATG", 10)}


def rc(s):
    return "".join(COMP[c] for c in reversed(s))


def flip(f):
    return (rc(f[0]), rc(f[2]), rc(f[1]))


def perms(r, n):
    out = []
    for _ in range(3):
        p = list(range(n))
        r.shuffle(p)
        out.append(" ".join(map(str, p)))
    return out


def overhangs(r, k, strict=True, pal=0):
    """k distinct 4-mers; strict: none palindromic, no two reverse complements of each other; pal: that many palindromes"""
    out = []
    pals = ["AATT", "ACGT", "GATC", "TGCA", "CCGG", "TTAA"]
    r.shuffle(pals)
    while len(out) < k:
        if pal > 0:
            o = pals.pop(); pal -= 1
        else:
            o = randword(r, ACGT, 4)
            if not strict and out and r.random() < 0.4:
                o = rc(r.choice(out))       # deliberately a reverse-complement pair
            if o == rc(o):
                continue
            if strict and rc(o) in out:
                continue
        if o in out:
            continue
        out.append(o)
    r.shuffle(out)
    return out


def seqword(r, lo=0, hi=12, avoid=()):
    for _ in range(200):
        w = randword(r, ACGT, r.randint(lo, hi))
        if not any(a in w for a in avoid):
            return w
    return "A" * lo


def lig_case(r, tag, frags):
    """frags: list of (seq, fwd, rev, flipbit)"""
    text = ";".join("%s,%s,%s,%d" % f for f in frags)
    return ["lig", tag, text] + perms(r, len(frags))


def design(r, k, maxalt, strict=True, pal=0, decoys=0, avoid=(), minseq=0, budget=3000):
    """fragments (seq,fwd,rev) of a designed assembly with k junctions; returns (ring fragments, decoys)"""
    while True:
        alts = [r.randint(1, maxalt) for _ in range(k)]
        prod = 1
        for a in alts:
            prod *= a
        if prod * sum(alts) <= budget:
            break
    ohs = overhangs(r, k + 2 * decoys, strict, pal)
    ring, extra = [], []
    for j in range(k):
        for _ in range(alts[j]):
            ring.append((seqword(r, minseq, 12, avoid), ohs[j], ohs[(j + 1) % k]))
    w = lambda: seqword(r, minseq, 12, avoid)
    for d in range(decoys):
        a, a2 = r.choice(ohs[:k]), r.choice(ohs[:k])
        y, z = ohs[k + 2 * d], ohs[k + 2 * d + 1]
        shape = r.choice(["out", "in", "shared-dead-end", "shared-lead-in", "chain", "chain-in", "pal-dead-end"])
        if shape == "out":
            extra.append((w(), a, y))
        elif shape == "in":
            extra.append((w(), y, a))
        elif shape == "shared-dead-end":      # two decoys ending in the same unknown overhang
            extra += [(w(), a, y), (w(), a2, y)]
        elif shape == "shared-lead-in":       # two decoys starting with the same unknown overhang
            extra += [(w(), y, a), (w(), y, a2)]
        elif shape == "chain":                # a part of another cloning position behind a decoy
            extra += [(w(), a, y), (w(), y, z)]
        elif shape == "chain-in":
            extra += [(w(), z, y), (w(), y, a)]
        else:                                 # the dead end is a palindrome
            extra.append((w(), a, r.choice(["AATT", "ACGT", "GATC", "TGCA", "CCGG", "TTAA"])))
    return ring, extra


def with_flips(r, frags, p=0.5):
    out = [(s, f, v, 1 if r.random() < p else 0) for (s, f, v) in frags]
    r.shuffle(out)
    return out


def small_pools(nmax):
    """every multiset of <= nmax fragments over three overhangs, three overhang alphabets"""
    alphabets = [("plain", ["AATG", "GCTT", "CCGA"]), ("rcpair", ["AATG", "CATT", "GCTT"]), ("palin", ["AATT", "AATG", "GCTT"])]
    seqs = ["C", "GA", "TTG", "ACAC", "G"]
    for name, ohs in alphabets:
        pairs = [(a, b) for a in ohs for b in ohs]
        for n in range(1, nmax + 1):
            for combo in itertools.combinations_with_replacement(range(len(pairs)), n):
                frags = [(seqs[i], pairs[c][0], pairs[c][1], 0) for i, c in enumerate(combo)]
                ident = list(range(n))
                text = ";".join("%s,%s,%s,%d" % f for f in frags)
                yield ["lig", "small-" + name, text, " ".join(map(str, reversed(ident))),
                       " ".join(map(str, ident[1:] + ident[:1])), " ".join(map(str, ident[n // 2:] + ident[:n // 2]))]


def seg_insert(r, frag, skip, fl=None):
    """layout segment for one designed fragment (seq, fwd, rev)"""
    if fl is None:
        fl = 1 if r.random() < 0.5 else 0
    return "i:%s/%s/%s/%d/%s/%s" % (frag[0], frag[1], frag[2], fl, randword(r, ACGT, skip), randword(r, ACGT, skip))


def layout_body(enz, segs):
    """mirror of Driver/C09.lean `layout`: the unrotated top-strand text and the number of forward / reverse sites"""
    site, skip = ENZ[enz]
    rsite = rc(site)
    body, nf, nr = "", 0, 0
    for seg in segs:
        kind, _, spec = seg.partition(":")
        if kind == "p":
            body += spec
        elif kind == "F":
            body += site; nf += 1
        elif kind == "R":
            body += rsite; nr += 1
        else:
            s, f, v, fl, sp1, sp2 = spec.split("/")
            ff = flip((s, f, v)) if fl == "1" else (s, f, v)
            body += site + sp1 + ff[1] + ff[0] + ff[2] + sp2 + rsite
            nf += 1; nr += 1
    return body, nf, nr


def site_count(enz, w, circ):
    site = ENZ[enz][0]
    rsite = rc(site)
    ww = w + w[:len(site) - 1] if circ else w
    return (sum(1 for i in range(len(ww) - 5) if ww[i:i + 6] == site), sum(1 for i in range(len(ww) - 5) if ww[i:i + 6] == rsite))


def part_item(r, enz, segs, shape=None, rot=None, pflip=None, lc=None, cyclic=False):
    """`shape,rot,pflip,lc,segs` or None when the layout contains an accidental recognition site"""
    body, nf, nr = layout_body(enz, segs)
    if shape is None:
        shape = r.choice("CL")
    if shape == "C" and len(body) == 0:
        return None
    if site_count(enz, body, shape == "C" or cyclic) != (nf, nr):
        return None
    if rot is None:
        rot = r.randrange(0, len(body)) if shape == "C" else 0
    if pflip is None:
        pflip = 1 if r.random() < 0.5 else 0
    if lc is None:
        lc = 1 if r.random() < 0.2 else 0
    return "%s,%d,%d,%d,%s" % (shape, rot, pflip, lc, "+".join(segs))


def carrier_segs(r, enz, frags, extra_sites=True, padmax=30):
    """segments of one carrier releasing the fragments `frags` (one or more inserts; sometimes an extra forward site
    upstream or an extra reverse site downstream — the outer site is cut away with the flank; sometimes a site pair
    that releases a piece of the backbone itself)"""
    site, skip = ENZ[enz]
    avoid = (site, rc(site))
    pad = lambda lo, hi: "p:" + seqword(r, lo, hi, avoid)
    segs = [pad(0, padmax)]
    if extra_sites and r.random() < 0.15:
        segs += ["F:", pad(12 + 2 * skip, 30 + 2 * skip)]
    for i, f in enumerate(frags):
        if i > 0:
            segs.append(pad(0, padmax))
        segs.append(seg_insert(r, f, skip))
    if extra_sites and r.random() < 0.15:
        segs += [pad(12 + 2 * skip, 30 + 2 * skip), "R:"]
    if extra_sites and r.random() < 0.08:
        segs += [pad(4, 20), "F:", pad(12 + 2 * skip, 40 + 2 * skip), "R:"]
    segs.append(pad(10 + 2 * skip, padmax + 10 + 2 * skip))
    return segs


def gg_case(r, tag, enz, ring, extra, rawparts=0, multi=0.0, force=None):
    """one carrier per fragment; with probability `multi` two or three fragments share a carrier"""
    site, skip = ENZ[enz]
    avoid = (site, rc(site))
    frags = list(ring + extra)
    r.shuffle(frags)
    groups = []
    while frags:
        n = 1
        if r.random() < multi:
            n = r.choice([2, 2, 3])
        groups.append(frags[:n]); frags = frags[n:]
    items = []
    for g in groups:
        for _ in range(100):
            it = part_item(r, enz, carrier_segs(r, enz, g), **(force or {}))
            if it:
                items.append(it); break
        else:
            return None
    for _ in range(rawparts):
        it = part_item(r, enz, ["p:" + seqword(r, 8, 40, avoid)])
        if it is None:
            return None
        items.append(it)
    r.shuffle(items)
    return ["gg", tag, enz, ";".join(items)] + perms(r, len(items))


def rotation_sweep(r, enz, tag, pflip):
    """a two-part assembly whose first part is a circular carrier, supplied at EVERY rotation (also inside the sites)"""
    site, skip = ENZ[enz]
    avoid = (site, rc(site))
    while True:
        ohs = overhangs(r, 2)
        a = (seqword(r, 3, 10, avoid), ohs[0], ohs[1])
        b = (seqword(r, 3, 10, avoid), ohs[1], ohs[0])
        segs = [seg_insert(r, a, skip, 0), "p:" + seqword(r, 12, 25, avoid)]
        body, nf, nr = layout_body(enz, segs)
        other = part_item(r, enz, ["p:" + seqword(r, 2, 8, avoid), seg_insert(r, b, skip, 0), "p:" + seqword(r, 12 + 2 * skip, 20 + 2 * skip, avoid)],
                          shape="L", pflip=0, lc=0)
        if other and site_count(enz, body, True) == (1, 1):
            break
    for rot in range(len(body)):
        it = part_item(r, enz, segs, shape="C", rot=rot, pflip=pflip, lc=0)
        yield ["gg", tag, enz, it + ";" + other, "1 0", "0 1", "1 0"]


def ggtwin_case(r, enz, where=None):
    """a GoldenGate HISTORY in one process: first the parts with one carrier in its OTHER topology (the same sequence text
    read as a plasmid instead of a linear piece, or the reverse), then the assembly proper.  The carrier text is rotated so
    that its origin falls inside the insert (the linear reading releases nothing, the circular one the fragment), inside a
    recognition site (the linear reading loses that site) or in the backbone (both readings agree)."""
    site, skip = ENZ[enz]
    avoid = (site, rc(site))
    k = r.randint(1, 3)
    ring, extra = design(r, k, 2, strict=True, decoys=r.choice([0, 1]), avoid=avoid, minseq=8, budget=40)
    frags = ring + extra
    t = r.randrange(len(ring))
    items = []
    for i, f in enumerate(frags):
        for _ in range(100):
            if i != t:
                it = part_item(r, enz, carrier_segs(r, enz, [f], extra_sites=False))
            else:
                padL = seqword(r, 0, 12, avoid)
                seg = seg_insert(r, f, skip)
                segs = ["p:" + padL, seg, "p:" + seqword(r, 12 + 2 * skip, 40, avoid)]
                body, nf, nr = layout_body(enz, segs)
                _, _, spec = seg.partition(":")
                sq, fw, rv, fl, sp1, sp2 = spec.split("/")
                seq0 = len(padL) + 6 + skip + 4
                w = where or r.choice(["insert", "insert", "fsite", "rsite", "backbone"])
                if w == "insert":
                    # beyond the stretch the forward cut needs contiguous (site, skip, overhang, skip), before the reverse overhang ends
                    rot = r.randrange(seq0 + skip, seq0 + len(sq) + 5)
                elif w == "fsite":
                    rot = len(padL) + r.randrange(1, 6)
                elif w == "rsite":
                    rot = seq0 + len(sq) + 4 + skip + r.randrange(1, 6)
                else:
                    rot = r.randrange(len(body) - 6, len(body))
                it = part_item(r, enz, segs, shape=r.choice("CL"), rot=rot, lc=0, cyclic=True)
            if it:
                items.append(it); break
        else:
            return None
    perm = list(range(len(items)))
    r.shuffle(perm)
    items = [items[i] for i in perm]
    twin = perm.index(t)
    return ["ggtwin", "twin", enz, ";".join(items), str(twin)] + perms(r, len(items))


def junction_site_case(r, enz, strand, k):
    """an assembly in which one JUNCTION spells the enzyme's recognition site (on the given strand) although no part has the
    site inside its cut-out stretch: the fragment before the junction ends with the first letters of the site, the junction
    overhang is its middle, the next fragment starts with the rest (BsaI: ...G + GTCT + C... = GGTCTC)"""
    site = ENZ[enz][0]
    avoid = (site, rc(site))
    word = site if strand == "fwd" else rc(site)
    i = r.randrange(3)
    head, o, tail = word[:i], word[i:i + 4], word[i + 4:]
    if o == rc(o):
        return None
    while True:
        ohs = [o] + overhangs(r, k - 1)
        if len(set(ohs)) == k and not any(rc(x) in ohs for x in ohs):
            break
    # junction 0 (overhang o) lies between the last fragment of the ring and the first
    ring = []
    for j in range(k):
        sq = seqword(r, 3, 12, avoid)
        if j == 0:
            sq = tail + sq
        if j == k - 1:
            sq = sq + head
        if k == 1:
            sq = tail + seqword(r, 3, 12, avoid) + head
        ring.append((sq, ohs[j], ohs[(j + 1) % k]))
    if any(a in f[1] + f[0] + f[2] for f in ring for a in avoid):
        return None
    return gg_case(r, "junction-site-" + strand, enz, ring, [], multi=0.0)


def behind_backbone(r, avoid=(), backbone=300):
    """a long fragment followed by short alternatives: >= 2 candidates at a junction at depth >= 2, plus a decoy that
    shares a forward overhang with a real fragment"""
    ohs = overhangs(r, 5)
    A, B, C, D = ohs[:4]
    ring = [(seqword(r, backbone, backbone + 40, avoid), A, B)]
    for _ in range(r.randint(2, 3)):
        ring.append((seqword(r, 20, 50, avoid), B, C))
    for _ in range(r.randint(1, 2)):
        ring.append((seqword(r, 20, 50, avoid), C, A))
    extra = [(seqword(r, 25, 45, avoid), C, ohs[4])]
    return ring, extra


def _clear_breaker():
    """remove this run's circuit-breaker file (harness/cmd/run-clone/ops_c09.go: <build>/C09/hangs-<pid of check>-<start time>)"""
    import os, glob
    build = os.path.join(os.path.dirname(os.path.dirname(os.path.abspath(__file__))), "build", "C09")
    for f in glob.glob(os.path.join(build, "hangs-%d-*" % os.getpid())):
        try:
            os.remove(f)
        except OSError:
            pass


def cases(seed, tier):
    _clear_breaker()
    r = rng(seed, "C09")
    quick = tier == "quick"
    # --- exhaustive small pools
    for c in small_pools(3 if quick else 4):
        yield c
    # --- hand-made shapes (also in the corpus): cycle without the seed, self-closing, both-way, palindromes, duplicates
    A, B, C, D = "AATG", "GCTT", "CCGA", "TGAC"
    yield lig_case(r, "cycle", [("AC", A, B, 0), ("GG", B, C, 0), ("TT", C, B, 0)])
    yield lig_case(r, "cycle", [("AC", A, B, 0), ("GG", B, C, 0), ("TT", C, D, 0), ("CA", D, B, 0), ("GT", D, C, 0)])
    yield lig_case(r, "selfclose", [("ACGTAC", A, A, 0)])
    yield lig_case(r, "selfclose", [("ACGTAC", A, A, 0), ("GG", A, B, 0), ("CC", B, A, 0)])
    yield lig_case(r, "bothways", [("ACC", A, rc(A), 0), ("GGT", rc(A), A, 0)])
    yield lig_case(r, "dup", [("ACC", A, B, 0), ("GGT", B, A, 0), ("GGT", B, A, 0), ("ACC", A, B, 0)])
    yield lig_case(r, "dup-twice-needed", [("ACC", A, B, 0), ("GGT", B, rc(B), 0), ("ACC", A, B, 0), ("CAT", rc(A), A, 0)])
    yield lig_case(r, "pal", [("ACC", A, "AATT", 0), ("GGT", rc(A), "AATT", 0)])
    yield lig_case(r, "pal", [("ACC", "AATT", B, 0), ("GGT", B, "AATT", 0)])
    yield lig_case(r, "repeat-overhang", [("AC", A, B, 0), ("GG", B, C, 0), ("TT", C, B, 0), ("CA", B, A, 0)])
    yield lig_case(r, "repeat-overhang", [("AC", A, B, 0), ("GG", B, A, 0), ("TT", A, B, 0), ("CA", B, A, 0)])
    # --- designed assemblies, ligation path
    n = 120 if quick else 1500
    for i in range(n):
        k = r.randint(1, 6)
        strict = r.random() < 0.8
        if strict:
            ring, extra = design(r, k, 3, strict=True, decoys=r.choice([0, 0, 1, 2, 3]), budget=600 if quick else 5000)
        else:
            # overhang sets with reverse-complement pairs let fragments join in unintended ways: the recursion tree
            # grows factorially, keep these pools small
            ring, extra = design(r, min(k, 4), 2, strict=False, decoys=r.choice([0, 1]), budget=60)
            ring = ring[:7]
        yield lig_case(r, "design" if strict else "design-loose", with_flips(r, ring + extra))
    # brute-force cross-check of the ring walks on pools of 7 fragment values (the driver raises its bound for the tag)
    for i in range(1 if quick else 12):
        ring, extra = design(r, r.randint(2, 4), 2, strict=r.random() < 0.7, decoys=r.choice([0, 1]), budget=100)
        frags = with_flips(r, (ring + extra)[:7])
        yield lig_case(r, "bf7", frags)
    for i in range(12 if quick else 300):
        kind = r.choice(["design", "random", "cycle"])
        if kind == "design":
            ring, extra = design(r, r.randint(1, 4), 3, strict=r.random() < 0.7, decoys=r.choice([0, 1, 2]), budget=100)
            frags = with_flips(r, (ring + extra)[:6])
        else:
            ohs = overhangs(r, r.randint(2, 3), strict=r.random() < 0.6, pal=r.choice([0, 0, 1]))
            if kind == "random" and r.random() < 0.5:
                ohs = ohs + [rc(o) for o in ohs if rc(o) != o]
            frags = with_flips(r, [(seqword(r, 0, 6), r.choice(ohs), r.choice(ohs)) for _ in range(6)], 0.3)
        yield lig_case(r, "bf6-" + kind, frags)
    # libraries that are NOT designed assemblies (a backward fragment) with more than nine fragment values: the set of all
    # rings is not enumerated, the one-lap rings (ligate_exact) are the upper bound
    for i in range(3 if quick else 40):
        k = r.randint(3, 4)
        ring, extra = design(r, k, 3, strict=True, decoys=r.choice([1, 2]), budget=400)
        back = r.randrange(k)
        ring.append((seqword(r, 2, 10), ring[0][1] if back == 0 else ring[-1][1], ring[0][1]))
        j1, j2 = r.sample(range(len(ring)), 2)
        ring.append((seqword(r, 2, 10), ring[j1][2], ring[j2][1]))
        if len(set(ring + extra)) > 9:
            yield lig_case(r, "library-backward", with_flips(r, ring + extra))
    # a 3-junction, 2-alternative library (also run under the race detector in the quick tier)
    ohs = overhangs(r, 3)
    yield lig_case(r, "lib-3x2", with_flips(r, [(seqword(r, 2, 10), ohs[j], ohs[(j + 1) % 3]) for j in range(3) for _ in range(2)]))
    # the largest library shape the property names: 6 junctions x 3 alternatives (18 parts, 729 plasmids, 4374 partial
    # constructs alive at once) — one through CircularLigate and one through GoldenGate in the quick tier, more in thorough
    for _ in range(1 if quick else 3):
        ohs = overhangs(r, 6)
        ring = [(seqword(r, 0, 8), ohs[j], ohs[(j + 1) % 6]) for j in range(6) for _ in range(3)]
        yield lig_case(r, "design-6x3", with_flips(r, ring))
    made = 0
    while made < (1 if quick else 2):
        enz = r.choice(list(ENZ))
        site = ENZ[enz][0]
        ohs = overhangs(r, 6)
        ring = [(seqword(r, 0, 8, (site, rc(site))), ohs[j], ohs[(j + 1) % 6]) for j in range(6) for _ in range(3)]
        c = gg_case(r, "design-6x3", enz, ring, [], multi=0.3)
        if c:
            made += 1
            yield c
    # --- cycles that exclude the seed: a tail leading into a cycle, plus chords
    for i in range(40 if quick else 400):
        m = r.randint(3, 7)
        ohs = overhangs(r, r.randint(2, 4), strict=r.random() < 0.7)
        frags = [(seqword(r, 0, 6), r.choice(ohs), r.choice(ohs)) for _ in range(m - 1)]
        tail = overhangs(r, 1)[0]
        frags.append((seqword(r, 1, 6), tail, r.choice(ohs)))
        if m > 6:
            # keep the recursion tree small: at most 6 fragments over few overhangs
            frags = frags[1:]
        yield lig_case(r, "cycle", with_flips(r, frags, 0.3))
    # --- duplicates (identical values), flipped copies of the same fragment
    for i in range(30 if quick else 300):
        ring, extra = design(r, r.randint(1, 4), 2, decoys=r.choice([0, 1]), budget=200)
        frags = with_flips(r, ring + extra)
        for _ in range(r.randint(1, 3)):
            f = r.choice(frags)
            if r.random() < 0.6:
                frags.append(f)
            else:
                # the same species supplied once more on the other strand
                g = flip(f[:3])
                frags.append((g[0], g[1], g[2], f[3]))
        r.shuffle(frags)
        if len(frags) <= 9:
            yield lig_case(r, "dup", frags)
    # --- palindromic overhangs inside designs
    for i in range(30 if quick else 300):
        k = r.randint(1, 5)
        ring, extra = design(r, k, 2, strict=True, pal=r.randint(1, min(2, k)), decoys=r.choice([0, 1]), budget=300)
        yield lig_case(r, "pal", with_flips(r, ring + extra))
    # --- random pools over few overhangs (closed under reverse complement half of the time)
    for i in range(60 if quick else 800):
        ohs = overhangs(r, r.randint(1, 3), strict=True, pal=r.choice([0, 0, 1]))
        if r.random() < 0.5:
            ohs = ohs + [rc(o) for o in ohs if rc(o) != o]
        m = r.randint(1, 6 if len(ohs) > 2 else 5)
        frags = [(seqword(r, 0, 6), r.choice(ohs), r.choice(ohs)) for _ in range(m)]
        yield lig_case(r, "random", with_flips(r, frags, 0.3))
    # --- a long backbone followed by short alternatives and a decoy (construct buffers must not be shared)
    for i in range(6 if quick else 60):
        ring, extra = behind_backbone(r)
        yield lig_case(r, "backbone", with_flips(r, ring + extra, 0.2))
    # --- long inserts
    for i in range(6 if quick else 80):
        k = r.randint(2, 4)
        ohs = overhangs(r, k)
        hi = 500 if quick or i % 8 else 2000
        ring = [(seqword(r, 50 if hi == 500 else 200, hi), ohs[j], ohs[(j + 1) % k]) for j in range(k) for _ in range(r.randint(1, 2))]
        yield lig_case(r, "long", with_flips(r, ring))
    # --- GoldenGate path
    made, want = 0, (70 if quick else 700)
    while made < want:
        enz = r.choice(list(ENZ))
        site = ENZ[enz][0]
        k = r.randint(1, 6)
        strict = r.random() < 0.9
        if strict:
            ring, extra = design(r, k, 3, strict=True, decoys=r.choice([0, 0, 1, 2]), avoid=(site, rc(site)),
                                 budget=300 if quick else 3000)
        else:
            ring, extra = design(r, min(k, 4), 2, strict=False, decoys=r.choice([0, 1]), avoid=(site, rc(site)), budget=60)
            ring = ring[:7]
        c = gg_case(r, "design" if strict else "design-loose", enz, ring, extra, rawparts=r.choice([0, 0, 1]),
                    multi=r.choice([0.0, 0.0, 0.4, 1.0]))
        if c:
            made += 1
            yield c
    # long inserts and a backbone-first assembly through the public API
    made, want = 0, (8 if quick else 80)
    while made < want:
        enz = r.choice(list(ENZ))
        site = ENZ[enz][0]
        avoid = (site, rc(site))
        if made % 2:
            ring, extra = behind_backbone(r, avoid)
            tag = "backbone"
        else:
            k = r.randint(2, 4)
            ohs = overhangs(r, k)
            hi = 500 if quick or made % 10 else 2000
            ring = [(seqword(r, 50, hi, avoid), ohs[j], ohs[(j + 1) % k]) for j in range(k) for _ in range(r.randint(1, 2))]
            extra, tag = [], "long"
        c = gg_case(r, tag, enz, ring, extra, multi=r.choice([0.0, 0.5]))
        if c:
            made += 1
            yield c
    # a junction that spells the recognition site (either strand): the assembled plasmid carries the site, no part does
    for enz in ENZ:
        for strand in ("fwd", "rev"):
            made = 0
            while made < (2 if quick else 12):
                c = junction_site_case(r, enz, strand, r.randint(1, 3))
                if c:
                    made += 1
                    yield c
    # histories: the same sequence text first in one topology, then in the other, inside one process
    made, want = 0, (36 if quick else 400)
    while made < want:
        c = ggtwin_case(r, r.choice(list(ENZ)))
        if c:
            made += 1
            yield c
    # circular carriers at every rotation
    sweeps = [("BsaI", 0)] if quick else [(e, pf) for e in ENZ for pf in (0, 1)]
    for enz, pf in sweeps:
        for c in rotation_sweep(r, enz, "rotation", pf):
            yield c
    # --- outside the quantifier (correspondence only): lower case, IUPAC, invalid letters, unknown enzyme, empty pool
    yield ["lig", "empty", "", "", "", ""]
    yield ["lig", "ood-lower", "acc,aatg,gctt,0;ggt,gctt,aatg,0", "1 0", "0 1", "1 0"]
    yield ["lig", "ood-mixedcase", "acc,AATG,GCTT,0;ggt,GCTT,AATG,0", "1 0", "0 1", "1 0"]
    yield ["lig", "ood-iupac", "ANC,AATG,GCTT,0;GGT,GCTT,AATG,0", "1 0", "0 1", "1 0"]
    yield ["lig", "ood-invalid-letters", "AXC,AATG,AATG,0;GJT,GCTT,GCTT,0;ACG,CCGA,CCGA,0", "2 1 0", "1 0 2", "1 2 0"]
    yield ["lig", "ood-nonascii", "A\u017fC,AATG,AATG,0;G\u017fC,CCGA,CCGA,0", "1 0", "0 1", "1 0"]
    yield ["gg", "ood-enzyme", "EcoRI", "L,0,0,0,p:ACGTACGTAC", "0", "0", "0"]


def _tag(line):
    f = line.split("\t")
    return (f[0], f[1]) if len(f) > 1 else ("", "")


def _nfrag(line):
    f = line.split("\t")
    if f[0] == "lig":
        return f[2].count(";") + 1
    if f[0] in ("gg", "ggtwin"):
        return f[3].count(";") + 1
    return 0


def extra_runs(seed, tier, case_lines):
    """the same cases at GOMAXPROCS 1 / 2 / 16 (the main run uses the default), and under the race detector — in BOTH tiers.
    A repetition is the same case line again (every case line executes the call on four input orders, the first of them
    the given order, so n repetitions of a line = n executions of the identical input plus 3n on its shuffles)."""
    import os
    r = rng(seed, "C09-extra")
    pick = [l for l in case_lines if not _tag(l)[1].startswith(("ood", "small", "design-6x3", "bf"))]
    small = [l for l in case_lines if _tag(l)[1].startswith("small")]
    by_tag = lambda t: [l for l in case_lines if _tag(l)[1] == t]
    logdir = os.path.join(os.path.dirname(os.path.dirname(os.path.abspath(__file__))), "build", "C09")
    race_env = lambda g: {"GOMAXPROCS": g, "GORACE": "log_path=%s/race-report exitcode=0" % logdir}
    # the race detector dies beyond 8128 simultaneously live goroutines: moderate pools only (the 6x3 library, 4374
    # blocked senders, still fits and is run separately in the thorough tier)
    moderate = [l for l in pick if _nfrag(l) <= 9 and len(l) < 4000]
    if tier == "quick":
        sub = r.sample(pick, min(40, len(pick))) + r.sample(small, min(20, len(small)))
        for g in ("1", "2", "16"):
            yield ("gomaxprocs" + g, sub + by_tag("design-6x3"), {"GOMAXPROCS": g}, False)
        handful = by_tag("lib-3x2")[:1] + by_tag("backbone")[:1] + by_tag("cycle")[:1] + \
            [l for l in moderate if l.startswith("gg")][:1] + r.sample(small, min(1, len(small)))
        for g in ("1", "2", "16"):
            yield ("race" + g, handful * 20, race_env(g), True)
        _clear_breaker()
        return
    if True:
        sub = r.sample(pick, min(300, len(pick))) + r.sample(small, min(100, len(small)))
        for g in ("1", "2", "16"):
            yield ("gomaxprocs" + g, (sub + by_tag("design-6x3")) * 3, {"GOMAXPROCS": g}, False)
        rsub = by_tag("lib-3x2")[:1] + r.sample(moderate, min(60, len(moderate))) + r.sample(small, min(20, len(small)))
        big = [l for l in by_tag("design-6x3") if l.startswith("lig")]
        for g in ("1", "2", "16"):
            yield ("race" + g, rsub * 20, race_env(g), True)
            yield ("race6x3-" + g, big[:1] * 20 + big[1:] * 2, race_env(g), True)
    # the last extra run has been judged: the run is over
    _clear_breaker()
