#!/bin/sh
# Offline build of the whole framework from files on disk: harness, regenerated tables, every Lean module, the model driver.
set -e
cd "$(dirname "$0")"
export GOFLAGS=-mod=mod GOPROXY=off GOSUMDB=off GOTOOLCHAIN=local
# encoding/json writes \b and \f as short escapes from Go 1.22 on; C15 / C16 compare its text with the Lean printer's byte for byte
go version | awk '{split($3,v,"."); sub("go","",v[1]); if (v[1]+0<1 || (v[1]+0==1 && v[2]+0<22)) {print "setup: Go >= 1.22 required, found " $3; exit 1}}' || exit 1
mkdir -p build/bin evidence lean/PolyVerif/Gen lean/PolyVerif/Audit
sed "s#@REPO@#${VERIF_REPO:-/repo}#" harness/go.mod.in > harness/go.mod
cp "${VERIF_REPO:-/repo}/go.sum" harness/go.sum
(cd harness && go build -tags verif -o ../build/bin/ ./cmd/...)
for x in build/bin/extract-*; do "$x" lean/PolyVerif/Gen; done

(cd lean && lake build PolyVerif $(ls Exe/*.lean | sed "s#Exe/\(.*\)\.lean#pm_\1#"))
